"""C19 -- list output renders every member's header fields faithfully in Unix-LHA layout."""
import os, random, collections, shutil, struct
import common, lhabuild as lb, hdrgen
import test_list as tl
from common import CBuild

PID = "C19"
TRUSTED = ["the executable layout specification coq/ListOut.v (+ Printf.v, Glob.v): its extracted list_output IS the reference "
           "rendering of the property; column names/widths, OS names, month names regenerated from src/list.c on every run",
           "real tool built with -DTEST_BUILD, run with TZ=UTC and TEST_NOW_TIME"]
ASSUMPTIONS = ["TZ=UTC (localtime modelled by gmtime_utc)", "footer sums are size_t (mod 2^64)"]


# ---------------------------------------------------------------- pinned layout (audit round 4)
#
# The reference rendering takes the column names and widths, the OS names and the month names from src/list.c on every
# run (coq/Generated.v), so a change of those strings changes the reference with the tool.  They are part of "the fixed
# column layout of the Unix LHA tool" (the repository's own listings contain 8 of the 20 OS names and 8 of the 12 months):
# the rows of one archive with a member of every OS type and every month are compared with the text written out here.

OS_NAMES = {0: "[generic]", ord('M'): "[MS-DOS]", ord('w'): "[Win9x]", ord('W'): "[WinNT]", ord('U'): "[Unix]", ord('2'): "[OS/2]",
            ord('C'): "[CP/M]", ord('m'): "[Mac OS]", ord('J'): "[Java]", ord('F'): "[FLEX]", ord('R'): "[Runser]",
            ord('T'): "[TownsOS]", ord('9'): "[OS-9]", ord('K'): "[OS-9/68K]", ord('3'): "[OS-386]", ord('H'): "[Human68K]",
            ord('a'): "[Atari]", ord('A'): "[Amiga]", ord(' '): "[LHARK]"}
MONTHS = ["Jan", "Feb", "Mar", "Apr", "May", "Jun", "Jul", "Aug", "Sep", "Oct", "Nov", "Dec"]
HEADINGS = {
    "l": [" PERMSSN    UID  GID      SIZE  RATIO     STAMP           NAME",
          "---------- ----------- ------- ------ ------------ --------------------"],
    "lv": [" PERMSSN    UID  GID      SIZE  RATIO     STAMP     LV",
           "---------- ----------- ------- ------ ------------ ---"],
    "v": [" PERMSSN    UID  GID    PACKED    SIZE  RATIO METHOD CRC     STAMP          NAME",
          "---------- ----------- ------- ------- ------ ---------- ------------ -------------"],
    "vv": [" PERMSSN    UID  GID    PACKED    SIZE  RATIO METHOD CRC     STAMP            LV",
           "---------- ----------- ------- ------- ------ ---------- ------------------- ---"],
}
GOLD_NOW = 1500000000


def golden_archive():
    """256 empty members, OS byte k, stamped on the 15th of month k mod 12 of 1971 (k + 1 hours, k mod 60 minutes)"""
    import calendar
    ms, rows = b"", {"l": [], "v": [], "lv": [], "vv": []}
    for k in range(256):
        ts = calendar.timegm((1971, k % 12 + 1, 15, (k + 1) % 24, k % 60, k % 50))
        lv = (2, 3, 1)[k % 3]
        name = b"f%03d" % k
        f = {"level": lv, "method": b"-lh0-", "clen": 0, "length": 0, "crc": k, "attr": 0x20, "os": k,
             "time": ts if lv >= 2 else lb.dos_ftime(1999, 1, 1, 0, 0, 0), "exts": [(1, name)] + ([(0x54, struct.pack("<I", ts))] if lv == 1 else [])}
        if lv == 1:
            f["name"] = b""
        ms += lb.build_header(f)
        osn = OS_NAMES.get(k, "[unknown]")
        stamp = "%s %2d  %04d" % (MONTHS[k % 12], 15, 1971)
        full = "1971-%02d-15 %02d:%02d:%02d" % (k % 12 + 1, (k + 1) % 24, k % 60, k % 50)
        rows["l"].append("%-10s %11s %7d %s %s %s" % (osn, "", 0, "100.0%", stamp, name.decode()))
        rows["v"].append("%-10s %11s %7d %7d %s %s %04x %s %s" % (osn, "", 0, 0, "100.0%", "-lh0-", k, stamp, name.decode()))
        rows["lv"].append(name.decode())
        rows["lv"].append("%-10s %11s %7d %s %s [%d]" % (osn, "", 0, "100.0%", stamp, lv))
        rows["vv"].append(name.decode())
        rows["vv"].append("%-10s %11s %7d %7d %s %s %04x %s [%d]" % (osn, "", 0, 0, "100.0%", "-lh0-", k, full, lv))
    return ms + b"\0", rows


def pinned_layout(lha, tmp):
    """[(mode, line number, observed, expected, archive)] where the tool's listing of the golden archive departs from the pinned text"""
    arc, rows = golden_archive()
    p = os.path.join(tmp, "gold.lzh")
    open(p, "wb").write(arc)
    os.utime(p, (GOLD_NOW - 10, GOLD_NOW - 10))
    bad = []
    n = 0
    for mode in ("l", "lv", "v", "vv"):
        rc, out, err = common.run_lha(lha, [mode, p], now=GOLD_NOW)
        if common.abnormal(rc, err) or rc != 0:
            bad.append((mode, 0, "rc=%d %s" % (rc, err[-200:].decode("latin1")), "exit status 0", arc))
            continue
        got = out.decode("latin1").split("\n")
        exp = HEADINGS[mode] + rows[mode] + [HEADINGS[mode][1]]
        n += len(exp)
        for i, e in enumerate(exp):
            g = got[i] if i < len(got) else "<missing>"
            if g != e:
                bad.append((mode, i + 1, g, e, arc))
                break
    os.unlink(p)
    return bad, n


TRAILING_STARS = [b"a**", b"**a**", b"*a**", b"a***", b"?**", b"a*?**", b"**", b"*.txt**", b"d/**", b"d/*a**", b"x?**", b"**?", b"a.t?t**"]
OPTION_STRINGS = ["lq", "vq", "lvq", "lq1v", "lq2v", "lvq0", "vq0v", "vvq1", "-l", "-v", "-lv", "-vq2", "lf", "lfq1", "lvf", "vi", "lq0q2", "lq2q0"]
# quiet levels above 2 (every digit is a level: "q{num}"), the digit in every position of the option string (audit round 5)
OPTION_STRINGS += ["lq3", "vq4", "lvq5", "vvq6", "lq7v", "vq8", "lq9", "vq9v", "-lq3", "lq9q0", "lq0q9", "lfq5", "vq3i"]
# a 'q' without a digit followed by another option letter: the letter is an option, not a level
OPTION_STRINGS += ["lqv", "vqv", "lqf", "vqi", "lqfv", "-lqv"]


def directed_archive(now):
    """a few plain members whose names end where a pattern still has several '*' left"""
    ms = b""
    for i, (path, name) in enumerate([(None, b"a"), (None, b"xa"), (b"d\xff", b"a"), (b"d\xff", None), (None, b"abc"), (None, b"a.txt"), (None, b"x")]):
        exts = ([(1, name)] if name else []) + ([(2, path)] if path else [])
        data = b"x" * i
        f = {"level": 2, "method": b"-lh0-" if name else b"-lhd-", "clen": len(data), "length": len(data) * 3, "time": now - 1000 * i, "attr": 0x20,
             "os": ord('U'), "crc": i, "exts": exts}
        ms += lb.build_header(f) + data
    return ms + b"\0"


def run(ctx):
    rnd = random.Random(ctx.seed * 32416190071 + 19)
    cb = CBuild(PID)
    tmp = common.scratch_dir("c19")
    viol, mism = [], []
    try:
        lha = common.build_lha(cb)
        rn = tl.Runner(lha, ctx.model, tmp)
        stats = collections.Counter()
        now = rnd.choice([1500000000, 1000000000, 2000000000, 20000000, 4294967295])
        items = []
        n = 60 if ctx.quick else 1500
        blobs = [tl.gen_archive(rnd, now) for _ in range(n)]
        # archives whose sizes add up beyond 2^32 (footer totals must not wrap)
        for k in range(3):
            ms = b""
            for sz in (2 ** 31, 2 ** 31, 5 + k):
                f = {"level": 2, "method": b"-lh0-", "clen": 0, "length": sz, "time": now - 100, "attr": 0x20, "os": ord('U'),
                     "crc": 0, "exts": [(1, b"big%d" % sz)]}
                h = bytearray(lb.build_header(f))
                ms += bytes(h)
            blobs.append(ms + b"\0")
        # packed sizes that add up beyond 2^32 (the last member's recorded packed size is not backed by data)
        for k in range(2):
            ms = b""
            for j, (cl, fake) in enumerate([(5, None), (7 + k, None), (0, 2 ** 32 - 1 - k)]):
                f = {"level": 2, "method": b"-lh5-", "clen": cl if fake is None else fake, "length": 1000 + j, "time": now - 100, "attr": 0x20,
                     "os": ord('M'), "crc": 0, "exts": [(1, b"pk%d" % j)]}
                ms += lb.build_header(f) + b"z" * cl
            blobs.append(ms)
        lits = rn.literals(blobs)
        for i, (b, ls) in enumerate(zip(blobs, lits)):
            mtime = rnd.choice([now - 5, now - 20000000, 1, 86400 * 365, now])
            items.append(("g%d" % i, b, now, mtime, tl.variants_for(rnd, ls, full=False)))
        # patterns that still have several '*' left when the name ends; option strings other than <mode>[q<digit>]
        da = directed_archive(now)
        items.append(("stars", da, now, now - 5, [(m, "-", [p]) for m in ("l", "vv") for p in TRAILING_STARS]
                      + [("v", rnd.choice(tl.QUIETS), rnd.sample(TRAILING_STARS, 2)) for _ in range(6)]))
        items.append(("options", da, now, now - 5, [(o, "-", pl) for o in OPTION_STRINGS for pl in ([], [b"a*"])]))
        crashes, mm = [], []
        tl.compare_batch(rn, items, stats, mm, crashes)
        for c in crashes:
            viol.append({"property": PID, "kind": "tool-abnormal-exit", "detail": {k: (v if not isinstance(v, bytes) else v.hex()) for k, v in c.items()},
                         "sig": "crash"})
        for m in mm[:10]:
            # the model is the reference rendering: a difference is a concrete failing input
            viol.append({"property": PID, "kind": "list-output-differs-from-reference",
                         "mode": m.get("mode"), "quiet": m.get("quiet"), "patterns": m.get("patterns"), "now": m.get("now"),
                         "mtime": m.get("mtime"), "archive_hex": m.get("hex"),
                         "observed": (m.get("c") if not isinstance(m.get("c"), bytes) else m["c"].decode("latin1"))[:1500] if m.get("c") is not None else None,
                         "expected": (m.get("model") if not isinstance(m.get("model"), bytes) else m["model"].decode("latin1"))[:1500] if m.get("model") is not None else None,
                         "sig": "layout:" + str(m.get("mode"))})
        # the strings the reference takes from the source, against the text of the layout written out above
        pbad, plines = pinned_layout(lha, tmp)
        for mode, ln, g, e, arc in pbad:
            viol.append({"property": PID, "kind": "list-output-differs-from-the-pinned-layout", "mode": mode, "line": ln, "observed": g, "expected": e,
                         "now": GOLD_NOW, "mtime": GOLD_NOW - 10, "quiet": "-", "patterns": [], "archive_hex": arc.hex(),
                         "what": "archive with one member per OS byte 0..255, stamped in every month of 1971", "sig": "pinned:" + mode})
        # ratio column against the tool's own float arithmetic
        rexe = cb.compile("drv_list_ratio", [os.path.join(common.CDIR, "drv_list_ratio.c"), os.path.join(common.REPO, "src", "safe.c"),
                                             os.path.join(common.REPO, "src", "filter.c")] + cb.lib_sources(), sanitize=True)
        pairs = tl.ratio_pairs(rnd, 1500 if ctx.quick else 40000)
        import subprocess
        e_ = dict(os.environ); e_.update(common.ASAN_ENV)
        pr = subprocess.run([rexe], input=("\n".join("%d %d" % ab for ab in pairs) + "\n").encode(), stdout=subprocess.PIPE,
                            stderr=subprocess.PIPE, env=e_, timeout=600)
        co = pr.stdout.decode().split("\n")[:-1]
        if len(co) != len(pairs):
            raise common.Broken("ratio driver produced %d lines for %d pairs: %s" % (len(co), len(pairs), pr.stderr.decode()[-300:]))
        mo = common.run_lines_parallel([ctx.model], ["ratio %d %d" % p for p in pairs])
        nr = 0
        for p, c, m in zip(pairs, co, mo):
            nr += 1
            if c != m:
                viol.append({"property": PID, "kind": "ratio-differs", "pair": list(p), "observed": c, "expected": m, "sig": "ratio"})
        stats["cases"] += plines
        cov = {"evaluations": stats["cases"] + nr, "distinct_nontrivial": stats["cases"],
               "rule": "generated archives of 1-6 members (sizes to 2^32-1 incl. packed > original and original 0, every OS type, "
                       "permission words over their range, uid/gid 0-65535, stamps 0, 1, around now-6*30d +-1s, 2^31, 2^32-1, hostile "
                       "and long names, symlinks, directories, levels 0-3, totals beyond 2^32) x {l,lv,v,vv} x quiet {none,0,1,2} x "
                       "pattern lists (also patterns ending in several '*', option strings lq vq lq1v -l lf ..., packed totals beyond 2^32); "
                       "stdout compared byte for byte with the extracted reference; headings, separators and the rows of an archive with "
                       "one member per OS byte and month against the text of the layout pinned in p_C19.py (OS names, month names, "
                       "column names and widths are otherwise read from src/list.c); %d ratio pairs against the tool's "
                       "own float code" % nr,
               "distribution": {k: v for k, v in stats.items() if k.startswith("mode_")},
               "samples": [items[0][1].hex()[:160], str(items[0][4][:2])[:200]]}
        return {"violations": viol[:10], "mismatches": [], "coverage": cov,
                "search_note": "the reference rendering is the oracle: every difference is reported with archive, mode and both outputs"}
    finally:
        shutil.rmtree(tmp, ignore_errors=True)
        cb.close()


def replay(payload):
    cb = CBuild(PID)
    tmp = common.scratch_dir("c19r")
    try:
        if payload.get("kind") == "list-output-differs-from-the-pinned-layout":
            lha = common.build_lha(cb)
            bad, _ = pinned_layout(lha, tmp)
            for mode, ln, g, e, arc in bad:
                print("lha %s, line %d:\n  observed %r\n  expected %r" % (mode, ln, g, e))
            print("REPRODUCED" if bad else "not reproduced")
            return 1 if bad else 0
        if payload.get("kind") == "tool-abnormal-exit" and isinstance(payload.get("detail"), dict) and "hex" in payload["detail"]:
            # (audit round 5) a list command that ends with a non-zero status (e.g. the usage page for a quiet level it should accept)
            d = payload["detail"]
            lha = common.build_lha(cb)
            p = os.path.join(tmp, "a.lzh")
            open(p, "wb").write(bytes.fromhex(d["hex"]))
            os.utime(p, (d["mtime"], d["mtime"]))
            cmd = d["mode"] + ("" if d["quiet"] == "-" else "q" + d["quiet"])
            rc, out, err = common.run_lha(lha, [cmd, p] + [bytes.fromhex(x) for x in d["patterns"]], now=d["now"])
            print("lha %s: exit status %d\n%s" % (cmd, rc, out.decode("latin1")[:400]))
            print("REPRODUCED" if rc != 0 else "not reproduced")
            return 1 if rc != 0 else 0
        if payload.get("kind") != "list-output-differs-from-reference":
            print("replay by hand:", payload.get("kind"), payload.get("pair"))
            return 1
        lha = common.build_lha(cb)
        p = os.path.join(tmp, "a.lzh")
        open(p, "wb").write(bytes.fromhex(payload["archive_hex"]))
        os.utime(p, (payload["mtime"], payload["mtime"]))
        q = payload["quiet"]
        cmd = payload["mode"] + ("" if q == "-" else "q" + q)
        rc, out, err = common.run_lha(lha, [cmd, p] + [bytes.fromhex(x) for x in payload["patterns"]], now=payload["now"])
        print(out.decode("latin1"))
        bad = out.decode("latin1")[:1500] != payload.get("expected")
        print("REPRODUCED" if bad else "not reproduced")
        return 1 if bad else 0
    finally:
        shutil.rmtree(tmp, ignore_errors=True)
        cb.close()

#!/usr/bin/env python3
"""Differential test of the PMarc decoder models (coq/PmaCommon.v, Pm2.v,
Pm1.v, extracted) against the C decoders of /repo (lib/pm1_decoder.c,
lib/pm2_decoder.c, built with ASan): the same `dec` case lines are fed to the
model runner and to harness/c/drv_dec.c and the output lines must be
identical (returned sizes, hash of the data, length, CRC, progress events,
first bytes, input consumed).

Usage: test_pm.py [--seed N] [--quick] [--speed-only]
Exit 0: exact agreement on every case.  Exit 1: a mismatch or a C crash.
"""
import os, sys, time, random, argparse
import common
from common import CBuild, CDIR, run_lines, run_lines_parallel, hexs
import seeds

METHODS = ("-pm1-", "-pm2-")


def case(meth, data, chunks="-", declared=0, reads="4096", monitor=-1, junk=170):
    return "dec %s %s %s %d %s %d %d" % (meth, hexs(data), chunks, declared, reads, monitor, junk)


def reads_for(total, k):
    """a schedule reading [total] bytes (and one read more) in pieces of k.
    Note: the model of lha_decoder_read (Decoder.v, firstn_N) converts the
    remaining request size to a unary nat at every decoder step, so large
    requests make the model slow (quadratic); most cases use small pieces."""
    return "%d*%d" % (k, total // k + 2)


RD = 512     # default piece size


def bits_to_bytes(bits):
    bits = list(bits) + [0] * (-len(bits) % 8)
    out = bytearray()
    for i in range(0, len(bits), 8):
        v = 0
        for b in bits[i:i + 8]:
            v = (v << 1) | b
        out.append(v)
    return bytes(out)


def nbits(v, n):
    return [(v >> (n - 1 - i)) & 1 for i in range(n)]


def gen_cases(members, rnd, quick):
    L = []
    add = L.append
    pm = [m for m in members if m["method"] in METHODS]
    small = [m for m in pm if m["length"] <= 30000]
    big = [m for m in pm if m["length"] > 30000]

    # ---- 1. seed members: read schedules, callback chunkings, monitor, declared lengths
    for m in pm:
        meth, d, n = m["method"], m["data"], m["length"]
        if n <= 30000:
            scheds = [reads_for(n, 4096), reads_for(n, 1), reads_for(n, 7), reads_for(n, 460), reads_for(n, 256),
                      "1,2,3,460,256,257," + reads_for(n, 1000), "0,0,%d,0,%d" % (min(n // 2, 700), RD) + "," + reads_for(n, RD)]
            for ch in ("-", "1", "2,3", "4,0,1", "3"):
                for i, sc in enumerate(scheds):
                    add(case(meth, d, ch, n, sc, monitor=(i % 3) - 1, junk=(37 * i) % 256))
            # the whole member in one request
            add(case(meth, d, "-", n, str(n), monitor=0))
            add(case(meth, d, "2,3", n, "%d,5" % (n + 10)))
            for dl in (0, 1, 2, n - 1, n + 1, n + 1000, n + 40000, 4294967295 + 5):
                add(case(meth, d, "-", dl, reads_for(min(dl, n + 60000), RD) + ",1", monitor=0))
        else:
            # long members (1.2 MB of output): few full runs, prefixes otherwise
            if not quick:
                add(case(meth, d, "-", n, reads_for(n, 300), monitor=0))
                add(case(meth, d, "2,3", n + 7, reads_for(n, 1001), monitor=3))
            for dl in (20000, 70000):
                for ch in ("-", "1"):
                    add(case(meth, d, ch, dl, reads_for(dl, RD), monitor=1))

    # ---- 2. truncations (the -pm1- decoder continues with zero bits)
    for m in pm:
        meth, d, n = m["method"], m["data"], m["length"]
        dl = min(n, 30000)
        src = d if len(d) <= 12000 else d[:12000]
        offs = set(range(0, min(len(src), 72)))
        offs.update(range(72, len(src), max(1, len(src) // (25 if quick else 60))))
        offs.update(len(src) - k for k in range(1, 6) if len(src) - k >= 0)
        for o in sorted(offs):
            add(case(meth, src[:o], rnd.choice(["-", "-", "1", "2,3"]), dl, reads_for(dl, RD),
                     monitor=rnd.choice([-1, 0, 2])))

    # ---- 3. bit flips: table headers (first 32 bytes) and anywhere
    for m in pm:
        meth, d, n = m["method"], m["data"], m["length"]
        dl = min(n, 20000)
        src = bytearray(d if len(d) <= 8000 else d[:8000])
        hdr = list(range(min(32, len(src)) * 8))
        if quick:
            hdr = hdr[::3]
        for bit in hdr:
            s2 = bytearray(src)
            s2[bit // 8] ^= 0x80 >> (bit % 8)
            add(case(meth, bytes(s2), "-", dl, reads_for(dl, RD)))
        for _ in range(40 if quick else 120):
            s2 = bytearray(src)
            for _ in range(rnd.choice([1, 1, 2, 5])):
                p = rnd.randrange(len(src) * 8)
                s2[p // 8] ^= 0x80 >> (p % 8)
            add(case(meth, bytes(s2), rnd.choice(["-", "3"]), dl, reads_for(dl, RD)))
        for _ in range(10 if quick else 30):
            # a byte replaced, a byte deleted, a byte inserted
            s2 = bytearray(src)
            p = rnd.randrange(len(s2))
            k = rnd.randrange(3)
            if k == 0:
                s2[p] = rnd.randrange(256)
            elif k == 1:
                del s2[p]
            else:
                s2.insert(p, rnd.randrange(256))
            add(case(meth, bytes(s2), "-", dl, reads_for(dl, RD)))

    # ---- 4. random byte strings
    nrand = 600 if quick else 2500
    for i in range(nrand):
        meth = METHODS[i % 2]
        ln = rnd.choice([rnd.randrange(0, 8), rnd.randrange(0, 40), rnd.randrange(0, 300)])
        d = bytes(rnd.randrange(256) for _ in range(ln))
        dl = rnd.choice([0, 1, 10, 300, 5000, 5000, 20000])
        add(case(meth, d, rnd.choice(["-", "-", "1", "2,3", "4,0"]), dl,
                 rnd.choice([reads_for(dl, RD), reads_for(dl, 100), str(dl), "1,2," + reads_for(dl, 999)]),
                 monitor=rnd.choice([-1, 0, 1]), junk=rnd.randrange(256)))
    # longer random streams: garbage tables at every rebuild state
    for i in range(60 if quick else 300):
        meth = METHODS[i % 2]
        ln = rnd.choice([500, 1500, 3000, 6000])
        d = bytes(rnd.randrange(256) for _ in range(ln))
        dl = rnd.choice([3000, 12000, 40000])
        add(case(meth, d, "-", dl, reads_for(dl, RD)))
    # biased random streams (few distinct byte values)
    for i in range(60 if quick else 300):
        meth = METHODS[i % 2]
        vals = [rnd.randrange(256) for _ in range(rnd.choice([1, 2, 3]))]
        ln = rnd.choice([rnd.randrange(1, 30), rnd.randrange(30, 2000)])
        d = bytes(rnd.choice(vals) for _ in range(ln))
        dl = rnd.choice([100, 3000, 12000, 30000])
        add(case(meth, d, "-", dl, reads_for(dl, RD)))

    # ---- 5. constructed headers
    # pm2: discarded bit, num_codes (5), min_code_length (3), then random
    for nc in range(32):
        for mcl in range(8):
            for var in range(1 if quick else 3):
                bits = [rnd.randrange(2)] + nbits(nc, 5) + nbits(mcl, 3)
                if var == 1:
                    # short code lengths so that the tree is well formed more often
                    bits += nbits(rnd.choice([1, 2, 3]), 3)
                tail = [rnd.randrange(2) for _ in range(rnd.choice([0, 8, 200, 4000]))]
                dl = rnd.choice([10, 3000, 12000])
                add(case("-pm2-", bits_to_bytes(bits + tail), "-", dl, reads_for(dl, RD)))
    # pm2: num_codes >= 10 so that an offset table of each size is read: a
    # valid-looking code tree (num_codes codes of length 5) followed by
    # random data long enough to reach the rebuilds after 1, 2, 4, 8 KiB
    for nc in (10, 16, 28, 29, 30, 31):
        for var in range(2 if quick else 6):
            bits = [0] + nbits(nc, 5) + nbits(5, 3) + nbits(1, 3)
            for _ in range(nc):
                bits += [1]
            for _ in range(5):
                bits += nbits(rnd.randrange(8), 3)
            tail = [rnd.randrange(2) for _ in range(8 * rnd.choice([100, 3000, 9000]))]
            dl = rnd.choice([5000, 20000, 40000])
            add(case("-pm2-", bits_to_bytes(bits + tail), rnd.choice(["-", "3"]), dl, reads_for(dl, RD)))
    # pm1: start header 0..31 with empty / zero / one / random continuation
    for idx in range(32):
        add(case("-pm1-", b"", "-", 1000, reads_for(1000, RD)))
        hb = nbits(idx, 5)
        for tailkind in range(6):
            if tailkind == 0:
                tail = []
            elif tailkind == 1:
                tail = [1] * 3
            elif tailkind == 2:
                tail = [1] * rnd.choice([40, 400])
            elif tailkind == 3:
                tail = [0] * 40
            else:
                tail = [rnd.randrange(2) for _ in range(rnd.choice([16, 300, 8000]))]
            dl = rnd.choice([300, 3000, 12000])
            add(case("-pm1-", bits_to_bytes(hb + tail), rnd.choice(["-", "1"]), dl, reads_for(dl, RD)))

    # ---- 5b. callbacks that return 0 bytes before the end of the input (a
    # chunk size of 0): -pm1- substitutes zero bytes and goes on; -pm2- sees
    # individual read_bits calls fail while later ones succeed (e.g. "0,0,1":
    # num_codes fails, min_code_length is read)
    zpat = ["0,0,1", "0,1", "1,0", "0,0,0,4", "2,0,0", "0,3,0,1,0,0", "1,1,0", "0,0,1,1,1,1,1,1,1,1,1,1"]
    for m in small:
        for zp in zpat:
            dl = min(m["length"], 6000)
            add(case(m["method"], m["data"], zp, dl, reads_for(dl, RD)))
    for i in range(40 if quick else 160):
        meth = METHODS[i % 2]
        d = bytes(rnd.randrange(256) for _ in range(rnd.choice([3, 20, 200, 1500])))
        dl = rnd.choice([300, 3000, 9000])
        add(case(meth, d, rnd.choice(zpat), dl, reads_for(dl, RD), monitor=rnd.choice([-1, 0])))

    # ---- 6. all-0x00 / all-0xff streams
    for meth in METHODS:
        for v in (0x00, 0xff, 0x55, 0xaa, 0x80, 0x01):
            for ln in (0, 1, 2, 3, 4, 5, 8, 16, 64, 300, 3000):
                for dl in (0, 1, 700, 20000):
                    add(case(meth, bytes([v]) * ln, "-", dl, reads_for(dl, RD), monitor=0))
    return L


def rebuild_truncations(cexe, members, quick):
    """-pm2- streams cut in the middle of the table headers read by
    rebuild_tree: the input position of the rebuild after P output bytes
    (P = 1024, 2048, 4096, 8192, 12288, ...) is taken from the C decoder's
    own `in=` for a declared length of P; the stream is then truncated at
    every offset around it (so that read_code_tree / read_offset_tree fail
    at each of their read_bits calls, with every bit alignment the seeds
    offer)."""
    L = []
    seen = set()
    for m in members:
        if m["method"] != "-pm2-" or m["data"] in seen:
            continue
        seen.add(m["data"])
        d, n = m["data"], m["length"]
        points = [p for p in [1024, 2048] + [4096 * k for k in range(1, 5 if quick else 21)] if p < n]
        probe = [case("-pm2-", d, "-", p, reads_for(p, RD)) for p in points]
        out, rc, err = run_lines([cexe], probe, timeout=600)
        for p, o in zip(points, out):
            pos = [int(f[3:]) for f in o.split() if f.startswith("in=")]
            if not pos:
                continue
            for cut in range(max(0, pos[0] - 48), min(len(d), pos[0] + 1)):
                dl = min(n, p + 3000)
                L.append(case("-pm2-", d[:cut], "-", dl, reads_for(dl, RD)))
    return L


def compare(cexe, model, lines, label, jobs=None):
    t0 = time.time()
    co = run_lines_parallel([cexe], lines, jobs=jobs, timeout=3000)
    t1 = time.time()
    mo = run_lines_parallel([model], lines, jobs=jobs, timeout=3000)
    t2 = time.time()
    bad = []
    crashes = []
    for l, c, m in zip(lines, co, mo):
        if c.startswith("CRASH") or c == "HANG":
            crashes.append((l, c, m))
        if c != m:
            bad.append((l, c, m))
    print("%s: %d cases, C %.1fs, model %.1fs, mismatches %d, C crashes %d"
          % (label, len(lines), t1 - t0, t2 - t1, len(bad), len(crashes)))
    return bad, crashes, co, mo


def short(l, n=300):
    return l if len(l) <= n else l[:n] + "...(%d chars)" % len(l)


def speed(model, members):
    """KB/s of decoded output of the extracted model, single process, on the
    longest seed member of each method."""
    res = {}
    for meth in METHODS:
        ms = [m for m in members if m["method"] == meth]
        if not ms:
            continue
        m = max(ms, key=lambda x: x["length"])
        n = min(m["length"], 400000)
        line = case(meth, m["data"], "-", n, reads_for(n, 256))
        t0 = time.time()
        out, rc, err = run_lines([model], [line], timeout=3000)
        dt = time.time() - t0
        got = 0
        for f in out[0].split():
            if f.startswith("len="):
                got = int(f[4:])
        res[meth] = (got, dt, got / 1024.0 / dt if dt > 0 else 0.0)
        print("speed %s: %d bytes in %.2fs = %.0f KB/s" % (meth, got, dt, res[meth][2]))
    return res


def main():
    ap = argparse.ArgumentParser()
    ap.add_argument("--seed", type=int, default=1)
    ap.add_argument("--quick", action="store_true")
    ap.add_argument("--speed-only", action="store_true")
    a = ap.parse_args()
    rnd = random.Random(a.seed * 1000003 + 77)
    model = common.build_model()
    cb = CBuild("pm")
    rc = 0
    try:
        cexe = cb.compile("drv_dec", [os.path.join(CDIR, "drv_dec.c")] + cb.lib_sources())
        members = seeds.harvest(cb)
        if not a.speed_only:
            lines = gen_cases(members, rnd, a.quick) + rebuild_truncations(cexe, members, a.quick)
            rnd.shuffle(lines)      # spreads the long cases over the shards
            bad, crashes, co, mo = compare(cexe, model, lines, "pm1/pm2 model vs C")
            faults = sum(1 for m in mo if m.startswith("FAULT") or m.startswith("OUTOFFUEL"))
            nfail = sum(1 for l, c in zip(lines, co) if " len=0 " in c)
            per = {}
            for l in lines:
                k = l.split()[1]
                per[k] = per.get(k, 0) + 1
            print("cases per method: %s; model FAULT/OUTOFFUEL lines: %d; cases with no output: %d"
                  % (per, faults, nfail))
            for l, c, m in crashes[:20]:
                print("C CRASH on: %s\n   C:     %s\n   model: %s" % (short(l, 2000), c, m))
            for l, c, m in bad[:20]:
                print("MISMATCH on: %s\n   C:     %s\n   model: %s" % (short(l), short(c), short(m)))
            if bad or crashes:
                with open(os.path.join(common.ensure_build(), "test_pm_failures.txt"), "w") as f:
                    for l, c, m in bad + crashes:
                        f.write("%s\n  C:     %s\n  model: %s\n" % (l, c, m))
                rc = 1
            else:
                print("AGREE: %d cases, model and C outputs identical" % len(lines))
        speed(model, members)
    finally:
        cb.close()
    return rc


if __name__ == "__main__":
    sys.exit(main())

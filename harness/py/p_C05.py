"""C05 -- every well-formed level 0-3 header is returned with exactly its encoded fields."""
import os, random, hashlib, collections
import common, lhabuild as lb, hdrgen
from common import CBuild

PID = "C05"
TRUSTED = ["C driver harness/c/drv_hdr.c (basic reader API, TZ=UTC)", "reference encoder/normaliser harness/py/lhabuild.py (independent of the model)"]
ASSUMPTIONS = ["TZ=UTC; mktime modelled by the civil-calendar formula (checked against libc by every level-0/1 case)"]


def build(cb):
    return cb.compile("drv_hdr", [os.path.join(common.CDIR, "drv_hdr.c")] + cb.lib_sources())


def first_record(line):
    """the text of the first header record of a drv_hdr output line, or None"""
    if not line.startswith("H "):
        return None
    return line.split(" ; ")[0]


def run(ctx):
    rnd = random.Random(ctx.seed * 7368787 + 5)
    cb = CBuild(PID)
    viol, mism = [], []
    dist = collections.Counter()
    try:
        cexe = build(cb)
        n = 1200 if ctx.quick else 30000
        lines, meta = [], []
        for i in range(n):
            f = hdrgen.rfields(rnd, lv=i % 4)
            hdr, data = hdrgen.member(f)
            arch = hdr + data + b"\0"
            exp = lb.normalise(f)
            kind = rnd.choice(["file", "pipe", "cbskip", "cbnoskip"])
            lines.append("hdr %s %s" % (kind, arch.hex()))
            if exp is not None:
                cc = None
                if exp["cc"] == "computed":
                    # value stored = CRC of the header with the field zeroed = what the builder wrote
                    raw = bytearray(hdr)
                    cc = _stored_common_crc(f, hdr)
                rec = lb.fmt_expected(exp, len(hdr), data[:8], cc)
            else:
                rec = None
            meta.append((f, rec))
            dist["level%d" % f["level"]] += 1
            dist["rejected_by_spec" if rec is None else "accepted_by_spec"] += 1
        co = common.run_lines_parallel([cexe], lines)
        mo = common.run_lines_parallel([ctx.model], lines)
        nontriv = 0
        seen = set()
        for ln, (f, rec), c, m in zip(lines, meta, co, mo):
            got = first_record(c)
            hk = hashlib.md5(ln.encode()).digest()
            if hk not in seen:
                seen.add(hk)
                if rec is not None:
                    nontriv += 1
            if rec != got:
                viol.append({"property": PID, "kind": "header-fields", "case": ln, "expected": rec, "observed": (got or c)[:1500],
                             "fields": repr(f)[:1500], "sig": "fields:level%d" % f["level"]})
                continue
            if c != m:
                mism.append({"case": ln[:3000], "c": c[:800], "model": m[:800]})
        cov = {"evaluations": len(lines), "distinct_nontrivial": nontriv,
               "rule": "generated field records (levels 0-3 in rotation; names over a hostile alphabet incl. NUL, '\\\\', 0xFF, '|'; "
                       "sizes/times at range ends; every OS byte; random subsets/orders/duplicates of extended headers "
                       "00,01,02,41,50,51,52,53,54,CC and unknown types; level-0 Unix/OS-9 areas) encoded by the reference encoder; "
                       "expected = reference normalisation; non-trivial = distinct case that the reference says must be accepted",
               "distribution": dict(dist), "samples": [l[:200] for l in lines[:3]]}
        return {"violations": viol[:10], "mismatches": mism[:10], "coverage": cov,
                "search_note": "direct oracle: reference normalisation vs C output for every generated header"}
    finally:
        cb.close()


def _stored_common_crc(f, hdr):
    """the value of the last common-CRC field as stored in the header bytes"""
    fs = 4 if f["level"] == 3 else 2
    start = {1: 2 + hdr[0], 2: 26, 3: 32}[f["level"]]
    off = start
    val = 0
    for (t, p) in f.get("exts", []):
        if t == 0 and len(p) >= 2:
            val = hdr[off + 1] | (hdr[off + 2] << 8)
        off += 1 + len(p) + fs
    return val


def replay(payload):
    cb = CBuild(PID)
    try:
        cexe = build(cb)
        out = common.run_lines_parallel([cexe], [payload["case"]])
        got = first_record(out[0])
        print("expected:", payload.get("expected"))
        print("observed:", got or out[0][:500])
        bad = got != payload.get("expected")
        print("REPRODUCED" if bad else "not reproduced")
        return 1 if bad else 0
    finally:
        cb.close()

"""C05 -- every well-formed level 0-3 header is returned with exactly its encoded fields."""
import os, random, hashlib, collections
import common, lhabuild as lb, hdrgen
from common import CBuild

PID = "C05"
TRUSTED = ["C driver harness/c/drv_hdr.c (basic reader API, TZ=UTC)", "reference encoder/normaliser harness/py/lhabuild.py (independent of the model)"]
ASSUMPTIONS = ["TZ=UTC; mktime modelled by the civil-calendar formula (checked against libc by every level-0/1 case)"]


def build(cb):
    return cb.compile("drv_hdr", [os.path.join(common.CDIR, "drv_hdr.c")] + cb.lib_sources())


def first_record(line):
    """the text of the first header record of a drv_hdr output line, or None"""
    if not line.startswith("H "):
        return None
    return line.split(" ; ")[0]


def directed(ctx, rnd):
    """field records for combinations the random generator reaches rarely or never: (fields, member data)
    symlinks with several '|' (every name source), level-2 headers with the padding byte(s) Unix LHA appends, level-0
    areas that just miss / just meet the Unix and OS-9 forms, compressed sizes in the upper half of the 32-bit range (the data
    is then simply cut short), names of several hundred / thousand bytes, the -lh7- / LHARK and Amiga -lh0- rules with their
    near misses."""
    import struct
    out = []
    tok = [b"a", b"B", b"|", b"|", b"/", b"\\", b".", b"..", b"\xff", b"t", b"X"]
    link = struct.pack("<H", 0o120777)

    def lname(minbars):
        while True:
            s = b"".join(rnd.choice(tok) for _ in range(rnd.randrange(1, 10)))
            if s.count(b"|") >= minbars and b"\0" not in s:
                return s
    oss = [0, ord('M'), ord('U'), ord('2'), ord('K'), ord('a'), ord(' '), ord('A')]
    reps = 1 if ctx.quick else 8
    for _ in range(14 * reps):
        base = {"method": b"-lhd-", "clen": 0, "length": 0, "crc": 0, "attr": 0x20, "os": rnd.choice(oss)}
        nb = rnd.choice([1, 2, 2, 3])
        out.append((dict(base, level=2, time=5, exts=[(0x50, link), (1, lname(nb))]), b""))
        out.append((dict(base, level=3, time=5, exts=[(1, lname(nb)), (0x50, link)]), b""))
        out.append((dict(base, level=2, time=5, exts=[(2, lname(rnd.choice([0, 1])).replace(b"/", b"\xff") + b"\xff"), (0x50, link), (1, lname(rnd.choice([0, 1, 2])))]), b""))
        out.append((dict(base, level=1, time=0x21, name=lname(nb), exts=[(0x50, link)]), b""))
        out.append((dict(base, level=1, time=0x21, name=lname(0), exts=[(0x50, link), (1, lname(nb))]), b""))
        area = bytes([rnd.choice([ord('U'), ord('K')]), 0]) + struct.pack("<I", rnd.getrandbits(32)) + link + struct.pack("<HH", 7, 8)
        out.append((dict(base, level=0, time=0x21, name=lname(nb), area=area), b""))
    # level 2 with padding
    def accepted(lv):
        for _ in range(200):
            f = hdrgen.rfields(rnd, lv=lv)
            if lb.normalise(f) is not None:
                break
        return f
    for _ in range(60 * reps):
        f = accepted(2)
        f["pad"] = bytes(rnd.choice([1, 1, 2, 3]))
        out.append((f, None))
    # level-0 areas around the two recognised forms
    for _ in range(60 * reps):
        f = hdrgen.rfields(rnd, lv=0)
        f["name"] = f["name"][:40] or b"n"
        k = rnd.randrange(6)
        if k < 3:
            n = rnd.choice([10, 11, 12, 13, 14, 15, 16, 17, 20])
            a = bytearray(rnd.randrange(256) for _ in range(n))
            a[0] = rnd.choice([ord('U'), ord('K')])
            a[1] = 0 if k < 2 else rnd.choice([1, 0x80, 0xff, rnd.randrange(1, 256)])
        else:
            n = rnd.choice([18, 20, 21, 22, 23, 24, 26])
            a = bytearray(rnd.randrange(256) for _ in range(n))
            a[0] = ord('9')
            a[9] = 0xcc if k < 5 else rnd.randrange(256)
            if n > 18 and rnd.random() < 0.7:
                a[17], a[18] = a[1], a[2]
            if n > 18 and rnd.random() < 0.3:
                a[rnd.choice([17, 18])] ^= 1 << rnd.randrange(8)
        f["area"] = bytes(a)
        out.append((f, None))
    # compressed sizes in the upper half of the range; the archive ends after 20 bytes of data
    for lv in (0, 1, 2, 3):
        for big in [2 ** 31 - 1, 2 ** 31, 2 ** 31 + 5, 0xfffffe00 + rnd.randrange(200), 2 ** 32 - 1 - (400 if lv == 1 else 0)]:
            f = accepted(lv)
            f["clen"] = min(big, 2 ** 32 - 401) if lv == 1 else big      # level 1: size + extended headers must fit the field
            out.append((f, bytes(rnd.randrange(256) for _ in range(20))))
    # long names and long unknown headers
    ch = b"abcdefghijklmnopqrstuvwxyzABCDEFGHIJKLMNOPQRSTUVWXYZ0123456789._- "
    for lv, n in [(2, 255), (2, 256), (2, 257), (3, 300), (2, 1000), (3, 4095), (2, 20000), (3, 66000), (1, 600), (1, 40000)]:
        nm = bytes(rnd.choice(ch) for _ in range(n))
        pth = b"\xff".join(nm[i:i + 40] for i in range(0, min(n, 2000), 40)) + b"\xff"
        f = {"level": lv, "method": b"-lh5-", "clen": 3, "length": 9, "crc": 77, "attr": 0x20, "os": rnd.choice([ord('U'), ord('M')]),
             "time": 0x21 if lv == 1 else 12345, "exts": [(1, nm), (2, pth), (0x53, nm[:n // 2]), (0x7e, nm)][:rnd.choice([2, 3, 4])] + [(0, b"\0\0")]}
        if lv == 1:
            f["name"] = b"short"
        out.append((f, None))
    # -lh7- / LHARK and the Amiga directory rule, with near misses
    for lv in (0, 1, 2, 3):
        for o in (ord(' '), ord('M'), ord('A'), ord('a')):
            for m in (b"-lh7-", b"-lh0-", b"-lh6-"):
                for ln in (0, 1):
                    f = {"level": lv, "method": m, "clen": 0, "length": ln, "crc": 0, "attr": 0x20, "os": o, "time": 0x21 if lv < 2 else 99}
                    if lv < 2:
                        f["name"] = rnd.choice([b"", b"D\\", b"D\\F", b"f"])
                    if lv > 0:
                        f["exts"] = rnd.choice([[], [(2, b"D\xff")], [(2, b"d\xff"), (1, b"F")], [(1, b"F")]])
                    out.append((f, None))
    return out


def run(ctx):
    rnd = random.Random(ctx.seed * 7368787 + 5)
    cb = CBuild(PID)
    viol, mism = [], []
    dist = collections.Counter()
    try:
        cexe = build(cb)
        n = 1200 if ctx.quick else 30000
        lines, meta = [], []
        extra = directed(ctx, random.Random(ctx.seed * 611953 + 55))
        for i in range(n + len(extra)):
            if i < n:
                f = hdrgen.rfields(rnd, lv=i % 4)
                hdr, data = hdrgen.member(f)
                arch = hdr + data + b"\0"
            else:
                f, data = extra[i - n]
                if data is None:
                    hdr, data = hdrgen.member(f)
                    arch = hdr + data + b"\0"
                else:
                    hdr = lb.build_header(f)
                    arch = hdr + data
                dist["directed"] += 1
            exp = lb.normalise(f)
            kind = rnd.choice(["file", "pipe", "cbskip", "cbnoskip"])
            lines.append("hdr %s %s" % (kind, arch.hex()))
            if exp is not None:
                cc = None
                if exp["cc"] == "computed":
                    # value stored = CRC of the header with the field zeroed = what the builder wrote
                    raw = bytearray(hdr)
                    cc = _stored_common_crc(f, hdr)
                rec = lb.fmt_expected(exp, len(hdr), data[:8], cc)
            else:
                rec = None
            meta.append((f, rec))
            dist["level%d" % f["level"]] += 1
            dist["rejected_by_spec" if rec is None else "accepted_by_spec"] += 1
        co = common.run_lines_parallel([cexe], lines)
        mo = common.run_lines_parallel([ctx.model], lines)
        nontriv = 0
        seen = set()
        for ln, (f, rec), c, m in zip(lines, meta, co, mo):
            got = first_record(c)
            hk = hashlib.md5(ln.encode()).digest()
            if hk not in seen:
                seen.add(hk)
                if rec is not None:
                    nontriv += 1
            if rec != got:
                viol.append({"property": PID, "kind": "header-fields", "case": ln, "expected": rec, "observed": (got or c)[:1500],
                             "fields": repr(f)[:1500], "sig": "fields:level%d" % f["level"]})
                continue
            if c != m:
                mism.append({"case": ln[:3000], "c": c[:800], "model": m[:800]})
        cov = {"evaluations": len(lines), "distinct_nontrivial": nontriv,
               "rule": "generated field records (levels 0-3 in rotation; names over a hostile alphabet incl. NUL, '\\\\', 0xFF, '|'; "
                       "sizes/times at range ends; every OS byte; random subsets/orders/duplicates of extended headers "
                       "00,01,02,41,50,51,52,53,54,CC and unknown types; level-0 Unix/OS-9 areas) encoded by the reference encoder; "
                       "expected = reference normalisation; non-trivial = distinct case that the reference says must be accepted; plus directed records "
                       "(directed()): symlinks with 1-3 '|' through every name source, level-2 headers with padding bytes, level-0 areas around "
                       "the Unix/OS-9 forms (every nearby length, second byte / 0xCC / repeated bytes right and wrong), compressed sizes >= 2^31 "
                       "(data cut short), names and unknown headers of 255..66000 bytes, the -lh7-/LHARK and Amiga -lh0- rules with near misses",
               "distribution": dict(dist), "samples": [l[:200] for l in lines[:3]]}
        return {"violations": viol[:10], "mismatches": mism[:10], "coverage": cov,
                "search_note": "direct oracle: reference normalisation vs C output for every generated header"}
    finally:
        cb.close()


def _stored_common_crc(f, hdr):
    """the value of the last common-CRC field as stored in the header bytes"""
    fs = 4 if f["level"] == 3 else 2
    start = {1: 2 + hdr[0], 2: 26, 3: 32}[f["level"]]
    off = start
    val = 0
    for (t, p) in f.get("exts", []):
        if t == 0 and len(p) >= 2:
            val = hdr[off + 1] | (hdr[off + 2] << 8)
        off += 1 + len(p) + fs
    return val


def replay(payload):
    cb = CBuild(PID)
    try:
        cexe = build(cb)
        out = common.run_lines_parallel([cexe], [payload["case"]])
        got = first_record(out[0])
        print("expected:", payload.get("expected"))
        print("observed:", got or out[0][:500])
        bad = got != payload.get("expected")
        print("REPRODUCED" if bad else "not reproduced")
        return 1 if bad else 0
    finally:
        cb.close()

"""C05 -- every well-formed level 0-3 header is returned with exactly its encoded fields."""
import os, random, hashlib, collections
import common, lhabuild as lb, hdrgen
from common import CBuild

PID = "C05"
TRUSTED = ["C driver harness/c/drv_hdr.c (basic reader API, TZ=UTC)", "reference encoder/normaliser harness/py/lhabuild.py (independent of the model)"]
ASSUMPTIONS = ["TZ=UTC; mktime modelled by the civil-calendar formula (checked against libc by every level-0/1 case)"]


def build(cb):
    return cb.compile("drv_hdr", [os.path.join(common.CDIR, "drv_hdr.c")] + cb.lib_sources())


def first_record(line):
    """the text of the first header record of a drv_hdr output line, or None"""
    if not line.startswith("H "):
        return None
    return line.split(" ; ")[0]


LEAD = lb.build_header({"level": 0, "method": b"-lh0-", "clen": 0, "length": 0, "crc": 0, "attr": 0x20, "os": 0, "time": 0x21, "name": b"lead"})


def second_record(line):
    """the text of the second header record of a drv_hdr output line (the first must be the plain lead member), or None"""
    parts = line.split(" ; ")
    if len(parts) < 3 or not parts[0].startswith("H ") or " fn=6c656164 " not in parts[0] or not parts[1].startswith("H "):
        return None
    return parts[1]


def directed(ctx, rnd):
    """field records for combinations the random generator reaches rarely or never: (fields, member data)
    symlinks with several '|' (every name source), level-2 headers with the padding byte(s) Unix LHA appends, level-0
    areas that just miss / just meet the Unix and OS-9 forms, compressed sizes in the upper half of the 32-bit range (the data
    is then simply cut short), names of several hundred / thousand bytes, the -lh7- / LHARK and Amiga -lh0- rules with their
    near misses."""
    import struct
    out = []
    tok = [b"a", b"B", b"|", b"|", b"/", b"\\", b".", b"..", b"\xff", b"t", b"X"]
    link = struct.pack("<H", 0o120777)

    def lname(minbars):
        while True:
            s = b"".join(rnd.choice(tok) for _ in range(rnd.randrange(1, 10)))
            if s.count(b"|") >= minbars and b"\0" not in s:
                return s
    oss = [0, ord('M'), ord('U'), ord('2'), ord('K'), ord('a'), ord(' '), ord('A')]
    reps = 1 if ctx.quick else 8
    for _ in range(14 * reps):
        base = {"method": b"-lhd-", "clen": 0, "length": 0, "crc": 0, "attr": 0x20, "os": rnd.choice(oss)}
        nb = rnd.choice([1, 2, 2, 3])
        out.append((dict(base, level=2, time=5, exts=[(0x50, link), (1, lname(nb))]), b""))
        out.append((dict(base, level=3, time=5, exts=[(1, lname(nb)), (0x50, link)]), b""))
        out.append((dict(base, level=2, time=5, exts=[(2, lname(rnd.choice([0, 1])).replace(b"/", b"\xff") + b"\xff"), (0x50, link), (1, lname(rnd.choice([0, 1, 2])))]), b""))
        out.append((dict(base, level=1, time=0x21, name=lname(nb), exts=[(0x50, link)]), b""))
        out.append((dict(base, level=1, time=0x21, name=lname(0), exts=[(0x50, link), (1, lname(nb))]), b""))
        area = bytes([rnd.choice([ord('U'), ord('K')]), 0]) + struct.pack("<I", rnd.getrandbits(32)) + link + struct.pack("<HH", 7, 8)
        out.append((dict(base, level=0, time=0x21, name=lname(nb), area=area), b""))
    # level 2 with padding
    def accepted(lv):
        for _ in range(200):
            f = hdrgen.rfields(rnd, lv=lv)
            if lb.normalise(f) is not None:
                break
        return f
    for _ in range(60 * reps):
        f = accepted(2)
        f["pad"] = bytes(rnd.choice([1, 1, 2, 3]))
        out.append((f, None))
    # level-0 areas around the two recognised forms
    for _ in range(60 * reps):
        f = hdrgen.rfields(rnd, lv=0)
        f["name"] = f["name"][:40] or b"n"
        k = rnd.randrange(6)
        if k < 3:
            n = rnd.choice([10, 11, 12, 13, 14, 15, 16, 17, 20])
            a = bytearray(rnd.randrange(256) for _ in range(n))
            a[0] = rnd.choice([ord('U'), ord('K')])
            a[1] = 0 if k < 2 else rnd.choice([1, 0x80, 0xff, rnd.randrange(1, 256)])
        else:
            n = rnd.choice([18, 20, 21, 22, 23, 24, 26])
            a = bytearray(rnd.randrange(256) for _ in range(n))
            a[0] = ord('9')
            a[9] = 0xcc if k < 5 else rnd.randrange(256)
            if n > 18 and rnd.random() < 0.7:
                a[17], a[18] = a[1], a[2]
            if n > 18 and rnd.random() < 0.3:
                a[rnd.choice([17, 18])] ^= 1 << rnd.randrange(8)
        f["area"] = bytes(a)
        out.append((f, None))
    # compressed sizes in the upper half of the range; the archive ends after 20 bytes of data
    for lv in (0, 1, 2, 3):
        for big in [2 ** 31 - 1, 2 ** 31, 2 ** 31 + 5, 0xfffffe00 + rnd.randrange(200), 2 ** 32 - 1 - (400 if lv == 1 else 0)]:
            f = accepted(lv)
            f["clen"] = min(big, 2 ** 32 - 401) if lv == 1 else big      # level 1: size + extended headers must fit the field
            out.append((f, bytes(rnd.randrange(256) for _ in range(20))))
    # long names and long unknown headers
    ch = b"abcdefghijklmnopqrstuvwxyzABCDEFGHIJKLMNOPQRSTUVWXYZ0123456789._- "
    for lv, n in [(2, 255), (2, 256), (2, 257), (3, 300), (2, 1000), (3, 4095), (2, 20000), (3, 66000), (1, 600), (1, 40000)]:
        nm = bytes(rnd.choice(ch) for _ in range(n))
        pth = b"\xff".join(nm[i:i + 40] for i in range(0, min(n, 2000), 40)) + b"\xff"
        f = {"level": lv, "method": b"-lh5-", "clen": 3, "length": 9, "crc": 77, "attr": 0x20, "os": rnd.choice([ord('U'), ord('M')]),
             "time": 0x21 if lv == 1 else 12345, "exts": [(1, nm), (2, pth), (0x53, nm[:n // 2]), (0x7e, nm)][:rnd.choice([2, 3, 4])] + [(0, b"\0\0")]}
        if lv == 1:
            f["name"] = b"short"
        out.append((f, None))
    # level 1: extended headers whose sizes ADD UP to 64 KiB and more (each size field is 16 bits, their sum is not): the
    # compressed size the caller sees is the size field minus exactly that sum
    for sizes in ([40000, 30000], [65532, 1], [65532, 2], [65532, 3], [32768, 32768], [65535 - 3, 65535 - 3, 65535 - 3], [20000] * 7):
        exts = [(0x7e, bytes(rnd.randrange(256) for _ in range(n_))) for n_ in sizes] + [(1, b"first.txt")]
        f = {"level": 1, "method": b"-lh0-", "clen": 5, "length": 5, "crc": lb.crc16(b"hello"), "attr": 0x20, "os": ord('U'),
             "time": 0x21, "name": b"", "exts": exts}
        out.append((f, b"hello"))
    # -lh7- / LHARK and the Amiga directory rule, with near misses
    for lv in (0, 1, 2, 3):
        for o in (ord(' '), ord('M'), ord('A'), ord('a')):
            for m in (b"-lh7-", b"-lh0-", b"-lh6-"):
                for ln in (0, 1):
                    f = {"level": lv, "method": m, "clen": 0, "length": ln, "crc": 0, "attr": 0x20, "os": o, "time": 0x21 if lv < 2 else 99}
                    if lv < 2:
                        f["name"] = rnd.choice([b"", b"D\\", b"D\\F", b"f"])
                    if lv > 0:
                        f["exts"] = rnd.choice([[], [(2, b"D\xff")], [(2, b"d\xff"), (1, b"F")], [(1, b"F")]])
                    out.append((f, None))
    return out


MINLEN = {0x00: 2, 0x01: 1, 0x02: 1, 0x41: 24, 0x50: 2, 0x51: 4, 0x52: 1, 0x53: 1, 0x54: 4, 0xcc: 12}


def directed2(ctx, rnd):
    """second set of directed records (audit round 2): (fields, member data)
    * level-0/1 headers whose one-byte length field is at the top of its range (250..255), with and without a level-0 area;
    * every supported extended header with payloads of min-1, min, min+1 .. bytes (a header shorter than its minimum is
      ignored like an unknown one, a longer one is decoded from its first bytes), placed before and after ordinary headers
      that set the same fields, at levels 1-3;
    * the longest headers the formats allow: level 3 of exactly 1 MiB, level 2 of 65535 / 65534 bytes (OS-9/68k: length
      field 65535, two bytes more on disk);
    * level-0 areas of every length 8..29 in the Unix, OS-9/68k and OS-9 forms; path headers with bytes behind a NUL;
    * Unix areas that also pass the OS-9 tests; method fields that only resemble -pm*, -lh7-, -lh0-, -lhd-; nested paths
      with '..' / '.' / empty components in every position (the exact result of the path filter);
    * DOS time stamps with every field at both ends of its range and out-of-range months / days / hours;
    * names whose only letters are non-ASCII or sit next to the separators (case folding must not touch other bytes)."""
    import struct
    out = []
    ch = b"abcdefghijklmnopqrstuvwxyzABCDEFGHIJKLMNOPQRSTUVWXYZ0123456789._- "

    def word(n):
        return bytes(rnd.choice(ch) for _ in range(n))
    # ---- length byte at the top of its range
    for lv in (0, 1):
        for hl in (250, 251, 252, 253, 254, 255):
            for variant in range(3 if lv == 0 else 2):
                f = {"level": lv, "method": rnd.choice([b"-lh5-", b"-lh0-", b"-lhd-"]), "clen": rnd.choice([0, 3, 9]), "length": rnd.randrange(5000),
                     "crc": rnd.getrandbits(16), "attr": 0x20, "os": rnd.choice([0, ord('M'), ord('U'), ord('A')]), "time": lb.dos_ftime(2001, 2, 3, 4, 5, 6)}
                if lv == 0:
                    area = b""
                    if variant == 1:
                        area = bytes([ord('U'), 0]) + struct.pack("<IHHH", rnd.getrandbits(32), 0o100640, 1000, 100)
                    elif variant == 2:
                        a = bytearray(rnd.randrange(256) for _ in range(22))
                        a[0] = ord('9'); a[9] = 0xcc; a[17] = a[1]; a[18] = a[2]
                        area = bytes(a)
                    n = hl - 22 - len(area)
                    f["area"] = area
                else:
                    n = hl - 25
                    f["exts"] = [] if variant == 0 else [(0x54, struct.pack("<I", rnd.getrandbits(32))), (0x51, struct.pack("<HH", 3, 4))]
                k = rnd.randrange(1, n - 1)
                f["name"] = word(k) + b"\\" + word(n - k - 1)
                assert len(f["name"]) == n
                out.append((f, None))
    # ---- payload lengths around the minimum of every supported type
    perms = struct.pack("<H", 0o100751)
    for lv in (1, 2, 3):
        for t, m in sorted(MINLEN.items()):
            for n in sorted({0, m - 1, m, m + 1, m + 2, m + 9} - {-1}):
                for where in (0, 1):
                    if t in (1, 2, 0x52, 0x53):
                        pay = word(n)
                        if t == 2 and n and rnd.random() < 0.5:
                            pay = pay[:-1] + b"\xff"
                    else:
                        pay = bytes(rnd.randrange(1, 256) for _ in range(n))
                    ordinary = [(1, b"nm"), (2, b"dr\xff"), (0x50, perms), (0x51, struct.pack("<HH", 11, 12)), (0x54, struct.pack("<I", 1234567890)),
                                (0x52, b"grp"), (0x53, b"usr"), (0x41, struct.pack("<QQQ", 1, 2, 3))]
                    exts = [(t, pay)] + ordinary if where == 0 else ordinary + [(t, pay)]
                    if rnd.random() < 0.3:
                        exts.append((0x7e, word(rnd.randrange(0, 5))))
                    f = {"level": lv, "method": b"-lh5-", "clen": 2, "length": 7, "crc": 513, "attr": 0x20, "os": rnd.choice([ord('U'), ord('M'), ord('9')]),
                         "time": 0x21 if lv == 1 else 99999, "exts": exts}
                    if lv == 1:
                        f["name"] = b"base"
                    out.append((f, None))
    # ---- the longest headers
    def sized(lv, total, os_):
        """a header of `total` bytes on disk: name, path and one unknown header that fills the rest"""
        fs = 4 if lv == 3 else 2
        fixed = {2: 26, 3: 32}[lv]
        e = [(1, b"big.bin"), (2, b"top\xff")]
        used = fixed + sum(1 + len(p_) + fs for _, p_ in e)
        fill = total - used - (1 + fs)
        e.append((0x7d, bytes(rnd.randrange(256) for _ in range(fill))))
        return {"level": lv, "method": b"-lh5-", "clen": 4, "length": 40, "crc": 7, "attr": 0x20, "os": os_, "time": 1700000000, "exts": e}
    for (lv, total, os_) in [(3, 1048576, ord('U')), (3, 300000, ord('M')), (2, 65535, ord('U')), (2, 65534, ord('M')), (2, 65537, ord('K')),
                             (2, 65536, ord('K'))]:
        f = sized(lv, total, os_)
        assert len(lb.build_header(f)) == total
        out.append((f, None))
    # ---- level-0 areas of every length around the two recognised forms, all discriminating bytes right
    for n in range(8, 30):
        for first in (ord('U'), ord('K'), ord('9')):
            a = bytearray(rnd.randrange(1, 256) for _ in range(n))
            a[0] = first
            if first == ord('9'):
                if n > 9:
                    a[9] = 0xcc
                if n > 18:
                    a[17], a[18] = a[1], a[2]
            else:
                a[1] = 0
            f = {"level": 0, "method": b"-lh5-", "clen": 1, "length": 5, "crc": 9, "attr": 0x20, "os": 0, "time": 0x21, "name": b"Dir\\File.x", "area": bytes(a)}
            out.append((f, None))
    # ---- bytes hidden behind a NUL in the path must not take part in the all-caps test
    for lv in (1, 2, 3):
        for pth in (b"\0abc\xff", b"\0abc", b"AB\0cd\xff", b"\0\xff"):
            for nm in (b"UPPER.TXT", b"UP\0low"):
                f = {"level": lv, "method": b"-lh5-", "clen": 0, "length": 0, "crc": 0, "attr": 0x20, "os": rnd.choice([ord('M'), ord('2'), ord(' ')]),
                     "time": 0x21 if lv == 1 else 5, "exts": [(2, pth), (1, nm)]}
                if lv == 1:
                    f["name"] = b""
                out.append((f, None))
    # ---- a Unix / OS-9/68k area that also meets the tests of the OS-9 form (and the reverse is impossible: first byte)
    for first in (ord('U'), ord('K')):
        for n in (22, 23, 26):
            a = bytearray(rnd.randrange(1, 256) for _ in range(n))
            a[0], a[1], a[9], a[17], a[18] = first, 0, 0xcc, 0, a[2]
            out.append(({"level": 0, "method": b"-lh5-", "clen": 1, "length": 5, "crc": 9, "attr": 0x20, "os": 0, "time": 0x21, "name": b"f", "area": bytes(a)}, None))
    # ---- method fields that only resemble the special ones (-pm*: level-0 area ignored; -lh7- from LHARK at level 1: -lk7-;
    #      -lh0- from Amiga; -lhd-).  The start of an archive is recognised by its method field (-lh?-, -lz[45s]-, -pm?-), so
    #      these records are placed SECOND in the archive, after a plain member, where any method field is read.
    uarea = bytes([ord('U'), 0]) + struct.pack("<IHHH", 77, 0o100600, 5, 6)
    for m in (b"-pm0-", b"-pm9-", b"-pc1-", b"-p\0\0\0", b"-Pm2-", b"-pM1-", b"-qm1-", b"xpm1-"):
        out.append(({"level": 0, "method": m, "clen": 0, "length": 3, "crc": 9, "attr": 0x20, "os": 0, "time": 0x21, "name": b"f", "area": uarea}, None, "second"))
    for m in (b"-lh7-", b"-lh7x", b"-lh7\0", b"-lh70", b"-LH7-", b"-lh7\xff", b"-lh6-", b"-lk7-", b"-lh0-", b"-lh0x", b"-lh0\0", b"-lhd-", b"-lhdx", b"-lhd\0", b"-lhD-"):
        for lv in (0, 1, 2, 3):
            for o in (ord(' '), ord('A')):
                for ln in (0, 4):
                    f = {"level": lv, "method": m, "clen": 0, "length": ln, "crc": 9, "attr": 0x20, "os": o, "time": 0x21 if lv < 2 else 7}
                    if lv < 2:
                        f["name"] = b"Sub\\" + (b"F" if (ln or lv == 0) else b"")
                    if lv > 0:
                        f["exts"] = [(2, b"Top\xff")] + ([(1, b"N")] if ln else [])
                    out.append((f, None, "second"))
    # ---- what the path filter must do (not only that the result is clean): nested directories, '..' that pops one level
    #      only, chains of '..', '.', empty components, absolute paths
    pats = [b"a/b/../c/", b"a/b/c/../d/", b"a/b/c/../../d/", b"a/b/../../c/", b"a/b/../../../c/", b"/a/b/../c/", b"/a/../../b/", b"a/./b/../c/",
            b"a//b/../c/", b"../a/b/", b"a/../b/../c/", b"aa/bb/cc/dd/../../ee/", b"a/b/.../c/", b"a/..b/../c/", b"a/b../../c/", b"/../", b"/./a/",
            b"x/y/z/../", b"x/y/z/..", b"one/two/three/../../../four/five/../six/"]
    for pt in pats:
        for o in (ord('U'), ord('M')):
            base = {"method": b"-lh5-", "clen": 0, "length": 0, "crc": 0, "attr": 0x20, "os": o}
            out.append((dict(base, level=0, time=0x21, name=pt.replace(b"/", b"\\") + b"n"), None))
            out.append((dict(base, level=1, time=0x21, name=pt + b"n", exts=[]), None))
            out.append((dict(base, level=2, time=5, exts=[(1, b"n"), (2, pt.replace(b"/", b"\xff"))]), None))
            out.append((dict(base, level=3, time=5, method=b"-lhd-", exts=[(2, pt.replace(b"/", b"\xff"))]), None))
            out.append((dict(base, level=2, time=5, method=b"-lhd-", exts=[(0x50, struct.pack("<H", 0o120777)), (2, pt.replace(b"/", b"\xff")), (1, b"l|" + pt)]), None))
    # ---- DOS time stamps: every field at both ends / out of range
    for (y, mo, d, h, mi, sec) in [(1980, 1, 1, 0, 0, 0), (1980, 0, 0, 0, 0, 0), (1980, 0, 1, 0, 0, 2), (2107, 12, 31, 23, 59, 58), (2107, 15, 31, 31, 63, 62),
                                   (2043, 12, 31, 23, 59, 58), (2044, 1, 1, 0, 0, 0), (2000, 2, 29, 12, 0, 0), (2100, 2, 29, 12, 0, 0), (1999, 13, 0, 24, 60, 60),
                                   (2038, 1, 19, 3, 14, 6), (2038, 1, 19, 3, 14, 8), (2106, 2, 7, 6, 28, 14), (2106, 2, 7, 6, 28, 16), (1980, 1, 0, 0, 0, 0),
                                   (1981, 14, 30, 25, 61, 0)]:
        raw = lb.dos_ftime(y, mo, d, h, mi, sec)
        for lv in (0, 1):
            f = {"level": lv, "method": b"-lh0-", "clen": 0, "length": 0, "crc": 0, "attr": 0x20, "os": ord('M'), "time": raw, "name": b"T.TXT"}
            if lv == 1:
                f["exts"] = []
            out.append((f, None))
    # ---- case folding next to other bytes
    for o in (0, ord('M'), ord('a'), ord(' '), ord('2'), ord('U'), ord('A'), ord('m'), ord('w')):
        for nm, pth in [(b"\xc4\xd6\xdc.TXT", b"\xc9T\xc9\xff"), (b"@[^_`{|}~", b"AZ@[\xff"), (b"N\x01\x7f\x80\xfe", b"\x80\x81\xff\x82\xff"), (b"Az", b"DIR\xff"),
                        (b"AZ", b"DIr\xff"), (b"09", b"19\xff"), (b"F", None), (b"\xe0", b"\xc0\xff")]:
            for lv in (1, 2, 3):
                e = [(1, nm)] + ([(2, pth)] if pth is not None else [])
                f = {"level": lv, "method": b"-lh5-", "clen": 0, "length": 0, "crc": 0, "attr": 0x20, "os": o, "time": 0x21 if lv == 1 else 5, "exts": e}
                if lv == 1:
                    f["name"] = b""
                out.append((f, None))
            f = {"level": 0, "method": b"-lh5-", "clen": 0, "length": 0, "crc": 0, "attr": 0x20, "os": 0, "time": 0x21,
                 "name": (pth or b"").replace(b"\xff", b"\\") + nm}
            out.append((f, None))
    return out


def model_lines(ctx, lines):
    """the model's output for every line; headers of hundreds of kilobytes need more stack than the default 8 MiB
    (the extracted parser is not tail-recursive everywhere), so those lines run under `prlimit --stack=unlimited`"""
    import shutil
    big = [i for i, l in enumerate(lines) if len(l) > 600000]
    if not big:
        return common.run_lines_parallel([ctx.model], lines)
    bigset = set(big)
    small = [l for i, l in enumerate(lines) if i not in bigset]
    mo_small = common.run_lines_parallel([ctx.model], small)
    pre = ["prlimit", "--stack=unlimited"] if shutil.which("prlimit") else []
    mo_big = common.run_lines_parallel(pre + [ctx.model], [lines[i] for i in big], jobs=len(big))
    out, a, b = [], iter(mo_small), iter(mo_big)
    for i in range(len(lines)):
        out.append(next(b) if i in bigset else next(a))
    return out


def run(ctx):
    rnd = random.Random(ctx.seed * 7368787 + 5)
    cb = CBuild(PID)
    viol, mism = [], []
    dist = collections.Counter()
    try:
        cexe = build(cb)
        n = 1200 if ctx.quick else 30000
        lines, meta = [], []
        second = set()
        extra = directed(ctx, random.Random(ctx.seed * 611953 + 55))
        extra += directed2(ctx, random.Random(ctx.seed * 350377 + 555))
        for i in range(n + len(extra)):
            if i < n:
                f = hdrgen.rfields(rnd, lv=i % 4)
                hdr, data = hdrgen.member(f)
                arch = hdr + data + b"\0"
            else:
                f, data = extra[i - n][0], extra[i - n][1]
                if data is None:
                    hdr, data = hdrgen.member(f)
                    arch = hdr + data + b"\0"
                else:
                    hdr = lb.build_header(f)
                    arch = hdr + data
                if len(extra[i - n]) > 2:
                    arch = LEAD + arch
                    second.add(i)
                dist["directed"] += 1
            exp = lb.normalise(f)
            kind = rnd.choice(["file", "pipe", "cbskip", "cbnoskip"])
            lines.append("hdr %s %s" % (kind, arch.hex()))
            if exp is not None:
                cc = None
                if exp["cc"] == "computed":
                    # value stored = CRC of the header with the field zeroed = what the builder wrote
                    raw = bytearray(hdr)
                    cc = _stored_common_crc(f, hdr)
                rec = lb.fmt_expected(exp, len(hdr), data[:8], cc)
            else:
                rec = None
            meta.append((f, rec))
            dist["level%d" % f["level"]] += 1
            dist["rejected_by_spec" if rec is None else "accepted_by_spec"] += 1
        co = common.run_lines_parallel([cexe], lines)
        mo = model_lines(ctx, lines)
        nontriv = 0
        seen = set()
        for idx, (ln, (f, rec), c, m) in enumerate(zip(lines, meta, co, mo)):
            got = first_record(c) if idx not in second else second_record(c)
            hk = hashlib.md5(ln.encode()).digest()
            if hk not in seen:
                seen.add(hk)
                if rec is not None:
                    nontriv += 1
            if rec != got:
                viol.append({"property": PID, "kind": "header-fields", "case": ln, "expected": rec, "observed": (got or c)[:1500],
                             "fields": repr(f)[:1500], "sig": "fields:level%d" % f["level"], "second": idx in second})
                continue
            if c != m:
                mism.append({"case": ln[:3000], "c": c[:800], "model": m[:800]})
        cov = {"evaluations": len(lines), "distinct_nontrivial": nontriv,
               "rule": "generated field records (levels 0-3 in rotation; names over a hostile alphabet incl. NUL, '\\\\', 0xFF, '|'; "
                       "sizes/times at range ends; every OS byte; random subsets/orders/duplicates of extended headers "
                       "00,01,02,41,50,51,52,53,54,CC and unknown types; level-0 Unix/OS-9 areas) encoded by the reference encoder; "
                       "expected = reference normalisation; non-trivial = distinct case that the reference says must be accepted; plus directed records "
                       "(directed()): symlinks with 1-3 '|' through every name source, level-2 headers with padding bytes, level-0 areas around "
                       "the Unix/OS-9 forms (every nearby length, second byte / 0xCC / repeated bytes right and wrong), compressed sizes >= 2^31 "
                       "(data cut short), names and unknown headers of 255..66000 bytes, the -lh7-/LHARK and Amiga -lh0- rules with near misses",
               "distribution": dict(dist), "samples": [l[:200] for l in lines[:3]]}
        return {"violations": viol[:10], "mismatches": mism[:10], "coverage": cov,
                "search_note": "direct oracle: reference normalisation vs C output for every generated header"}
    finally:
        cb.close()


def _stored_common_crc(f, hdr):
    """the value of the last common-CRC field as stored in the header bytes"""
    fs = 4 if f["level"] == 3 else 2
    start = {1: 2 + hdr[0], 2: 26, 3: 32}[f["level"]]
    off = start
    val = 0
    for (t, p) in f.get("exts", []):
        if t == 0 and len(p) >= 2:
            val = hdr[off + 1] | (hdr[off + 2] << 8)
        off += 1 + len(p) + fs
    return val


def replay(payload):
    cb = CBuild(PID)
    try:
        cexe = build(cb)
        out = common.run_lines_parallel([cexe], [payload["case"]])
        got = second_record(out[0]) if payload.get("second") else first_record(out[0])
        print("expected:", payload.get("expected"))
        print("observed:", got or out[0][:500])
        bad = got != payload.get("expected")
        print("REPRODUCED" if bad else "not reproduced")
        return 1 if bad else 0
    finally:
        cb.close()

#!/usr/bin/env python3
"""Differential test of the LHAReader model (coq/Reader.v, coq/MacBinary.v,
coq/AnyDecoder.v; extracted, handler harness/ml/d_rdr.ml) against the real
library (lib/lha_reader.c and everything below it, driver harness/c/drv_rdr.c
built with ASan/UBSan): the same `rdr ...` case lines -- an archive, a
directory policy and a sequence of API calls (next_file / read / check /
extract) -- are fed to both; the printed headers, results, progress-callback
sequences and the dump of the scratch tree after extraction must be identical.

Archives are assembled from real compressed members harvested from
/repo/test/archives (seeds.harvest; declared lengths cut down so that the
extracted files stay small) wrapped in headers produced by the independent
encoder lhabuild.build_header (levels 0-3, Unix permission / uid / timestamp
extended headers), plus directories, symbolic links (safe and dangerous),
MacOS members with and without a MacBinary header, wrong CRCs and lengths,
truncated archives, unknown methods, hostile names.

Case families:
  exhaustive      every op sequence over {n, r5, r100000, c, x} up to length 4
                  for a set of small archives x 3 directory policies
  random-ok       random sequences (up to 40 ops) that use the API as intended:
                  per entry at most one kind of decode operation (r.../c/x),
                  after which only more reads, at most one extract per entry
  random-abuse    random sequences without that discipline (c after r, x
                  twice, r after c, ...): model and C must still agree
Every prefix of a sequence is a way of abandoning the archive: the op list
simply ends and reader and stream are freed.

-lz5- members never end in the middle of a 2-byte copy command (the library
would then use an uninitialised stack byte; the model's `junk` is 0).

Usage: test_rdr.py [--seed N] [--quick] [--random N] [--model EXE] [--show N]
                   [--leaks] [--dump-mismatches FILE]
Exit 0: exact agreement on every case.  Exit 1: a mismatch.
"""
import os, sys, time, random, argparse, itertools, subprocess, collections, struct, re, hashlib
import common, seeds
import lhabuild as lb
from common import CBuild, CDIR, run_lines_parallel

U = lb.OS_UNIX
MAC = lb.OS_MACOS
MAC_OFF = 2082844800
T_A, T_B, T_C = 1000000000, 1262304000, 86400 * 366     # time stamps (all in the past, non-zero)
DOS_A = lb.dos_ftime(1999, 12, 31, 23, 59, 58)
DOS_B = lb.dos_ftime(2010, 1, 1, 0, 0, 0)


def hx(b):
    return b.hex() if b else "-"


def crc16(b):
    return lb.crc16(b)


# ---------------------------------------------------------------- members

def split_full(full):
    i = full.rfind(b"/")
    return (full[:i + 1], full[i + 1:]) if i >= 0 else (b"", full)


def header(lv, method, clen, length, crc, full, os_=U, perms=None, uidgid=None, ts=T_A, inname=None, raw_exts=None):
    """Header bytes.  full = path + filename [+ "|" + link target] as the
    library will see it.  perms/uidgid/ts go to the Unix extended headers
    (levels 1-3) or to the level-0 Unix area.  inname (levels 0/1): put the
    name into the fixed part of the header instead of extended headers."""
    f = {"level": lv, "method": method, "clen": clen, "length": length, "crc": crc, "os": os_, "attr": 0x20}
    if lv == 0:
        f["time"] = DOS_A if ts else 0
        f["name"] = full
        if perms is not None or uidgid is not None:
            u, g = uidgid if uidgid else (0, 0)
            f["area"] = bytes([os_ if os_ in (U, lb.OS_OS9_68K) else U, 0]) + struct.pack("<IHHH", ts, perms or 0, u, g)
        return lb.build_header(f)
    exts = []
    if lv == 1:
        f["time"] = DOS_B if ts else 0
        if inname is None:
            inname = len(full) < 60 and b"|" not in full
        f["name"] = full if inname else b""
    else:
        f["time"] = ts
        inname = False
    if not inname:
        p, n = split_full(full)
        if n:
            exts.append((0x01, n))
        if p:
            exts.append((0x02, p.replace(b"/", b"\xff")))
    if perms is not None:
        exts.append((0x50, struct.pack("<H", perms)))
    if uidgid is not None:
        exts.append((0x51, struct.pack("<HH", uidgid[1], uidgid[0])))
    if lv == 1 and ts:
        exts.append((0x54, struct.pack("<I", ts)))
    exts += list(raw_exts or [])
    f["exts"] = exts
    return lb.build_header(f)


class Member:
    """what the generators know about one archive entry"""

    def __init__(self, hdr, data, kind, decodes=True):
        self.hdr, self.data, self.kind, self.decodes = hdr, data, kind, decodes

    def bytes(self):
        return self.hdr + self.data


def file_member(rnd, seed, full, lv=None, os_=U, perms=0o100644, uidgid=None, ts=T_A, bad=None, **kw):
    """a regular file from a seed {method, data, length, crc}; bad: None | crc | len+ | len- | clen- | method"""
    lv = rnd.randrange(4) if lv is None else lv
    method, data, length, crc = seed["method"].encode(), seed["data"], seed["length"], seed["crc"]
    if method == b"-lk7-":
        # the library only ever sees this name as its own translation of "-lh7-" in a level-1 LHark header
        lv, os_, method = 1, lb.OS_LHARK, b"-lh7-"
    if bad == "crc":
        crc ^= 0x0101
    elif bad == "len+":
        length += 7
    elif bad == "len-" and length > 3:
        length -= 3
    elif bad == "clen-":
        cuts = seed.get("cuts") or [len(data) // 2]
        data = data[:rnd.choice(cuts)]
    elif bad == "method":
        method = rnd.choice([b"-lh9-", b"-lhz-", b"-lh2-", b"-lh3-", b"-LH5-", b"-lz7-"])
    return Member(header(lv, method, len(data), length, crc, full, os_, perms, uidgid, ts, **kw), data,
                  "file", bad != "method")


def dir_member(rnd, path, lv=None, perms=0o40755, uidgid=None, ts=T_B, os_=U):
    lv = rnd.randrange(4) if lv is None else lv
    return Member(header(lv, b"-lhd-", 0, 0, 0, path, os_, perms, uidgid, ts), b"", "dir")


def link_member(rnd, full, target, lv=None, ts=T_C, uidgid=None):
    lv = rnd.randrange(4) if lv is None else lv
    return Member(header(lv, b"-lhd-", 0, 0, 0, full + b"|" + target, U, 0o120777, uidgid, ts), b"", "link")


def macbinary_header(fn, dfl, rfl, ts, tz=3600, version=0):
    h = bytearray(128)
    h[0] = version
    h[1] = len(fn) & 0xff
    h[2:2 + len(fn)] = fn[:63]
    h[0x41:0x45] = b"TEXT"
    h[0x45:0x49] = b"ttxt"
    h[0x49] = 1
    h[0x53:0x57] = struct.pack(">I", dfl)
    h[0x57:0x5b] = struct.pack(">I", rfl)
    h[0x5b:0x5f] = struct.pack(">I", (ts + MAC_OFF - 100) & 0xFFFFFFFF)
    h[0x5f:0x63] = struct.pack(">I", (ts + MAC_OFF + tz) & 0xFFFFFFFF)
    return bytes(h[:128])


def mac_member(rnd, full, variant, lv=None, ts=T_A, perms=None):
    """a stored (-lh0-) member with os type 'm'"""
    lv = rnd.choice([1, 2, 3]) if lv is None else lv
    fn = split_full(full)[1]
    dfork = bytes((i * 5 + 1) & 0xff for i in range(rnd.choice([0, 1, 77, 128, 300])))
    rfork = bytes((i * 3 + 2) & 0xff for i in range(rnd.choice([0, 0, 50, 200])))
    if variant == "res-only":
        dfork = b""
        rfork = rfork or b"RSRC" * 9
    body = dfork + rfork
    body += bytes(-len(body) % 128)
    mb = macbinary_header(fn, len(dfork), len(rfork), ts)
    method = b"-lh0-"
    if variant in ("valid", "res-only"):
        pass
    elif variant == "version":
        mb = macbinary_header(fn, len(dfork), len(rfork), ts, version=1)
    elif variant == "name":
        mb = macbinary_header(fn + b"x", len(dfork), len(rfork), ts)
    elif variant == "time":
        mb = macbinary_header(fn, len(dfork), len(rfork), ts, tz=15 * 3600)
    elif variant == "earlytime":
        mb = bytearray(mb)
        mb[0x5f:0x63] = struct.pack(">I", 5)
        mb = bytes(mb)
    elif variant == "forklen":
        mb = macbinary_header(fn, len(dfork) + 129, len(rfork), ts)
    elif variant == "nonzero":
        mb = bytearray(mb)
        mb[rnd.choice([0x4a, 0x52, 0x63, 0x64, 0x65, 0x7f, 2 + len(fn)])] = 1
        mb = bytes(mb)
    elif variant == "plainfile":
        mb = b""
        body = bytes((i * 11) & 0xff for i in range(rnd.choice([128, 200, 4096 + 300])))
    elif variant == "tiny":
        mb = b""
        body = bytes((i * 13) & 0xff for i in range(rnd.choice([0, 1, 127])))
    data = mb + body
    length, crc = len(data), crc16(data)
    stored = data
    decodes = True
    if variant == "short":            # decodes to fewer than 128 bytes although the header says >= 128
        stored = data[:rnd.choice([0, 1, 100, 127])]
        decodes = False
    elif variant == "badcrc":
        crc ^= 1
    return Member(header(lv, method, len(stored), length, crc, full, MAC, perms, None, ts), stored, "file", decodes)


def mac_seed_member(rnd, seed, plain, lv):
    """a real MacLHA member (compressed, with a MacBinary header inside): name and time from that header"""
    n = plain[1]
    fn = plain[2:2 + n]
    mt = struct.unpack(">I", plain[0x5f:0x63])[0] - MAC_OFF
    return Member(header(lv, seed["method"].encode(), len(seed["data"]), seed["length"], seed["crc"], fn, MAC, None,
                         None, mt), seed["data"], "file")


def lz5_safe_cuts(data):
    """prefix lengths of an -lz5- stream that do not end inside a 2-byte copy command"""
    cuts, i = [], 0
    while i < len(data):
        bitmap = data[i]
        i += 1
        cuts.append(i)
        for bit in range(8):
            if i >= len(data):
                break
            i += 1 if (bitmap >> bit) & 1 else 2
            if i <= len(data):
                cuts.append(i)
    return [c for c in cuts if c < len(data)]


# ---------------------------------------------------------------- seeds

def harvest_more(cb):
    """seeds.harvest looks at /repo/test/archives/*/*; the -lzs- members are one level further down"""
    import glob
    exe = os.path.join(cb.dir, "drv_members")
    paths = sorted(p for p in glob.glob(os.path.join(common.REPO, "test/archives/*/*/*")) if os.path.isfile(p))
    if not os.path.exists(exe) or not paths:
        return []
    p = subprocess.run([exe], input=("\n".join(paths) + "\n").encode(), stdout=subprocess.PIPE,
                       stderr=subprocess.DEVNULL, timeout=300)
    res = []
    for line in p.stdout.decode(errors="replace").splitlines():
        parts = line.split(" ")
        if line.startswith("M ") and len(parts) == 7:
            _, path, idx, meth, ln, crc, hx_ = parts
            res.append({"method": meth, "data": common.unhex(hx_), "length": int(ln), "crc": int(crc), "path": path,
                        "index": int(idx)})
    return res


class Pool:
    def __init__(self, cb, drv, rnd):
        allm = list(seeds.harvest(cb)) + harvest_more(cb)
        uniq = {}
        for s in allm:
            if s["method"] == "-lhd-":
                continue
            if len(s["data"]) > 10000 or s["length"] > 70000:
                # a long member: keep the beginning of the compressed stream and declare a short length
                # (the CRC is computed below from what the library decodes)
                if s["method"] in ("-lh0-", "-lz4-", "-pm0-"):
                    continue
                d = s["data"][:6000]
                if s["method"] == "-lz5-":
                    d = d[:max(c for c in lz5_safe_cuts(s["data"][:6001]) if c <= 6000)]
                s = dict(s, data=d, length=min(s["length"], 3000), crc=None)
            uniq.setdefault((s["method"], s["data"], s["length"], s["crc"]), s)
        self.full = sorted(uniq.values(), key=lambda s: (s["method"], len(s["data"]), s["data"], s["length"]))
        # the plain text of every seed, from the library itself: extract and read the dump
        lines = []
        for s in self.full:
            if s["method"] == "-lk7-":
                h = header(1, b"-lh7-", len(s["data"]), s["length"], s["crc"] or 0, b"f", lb.OS_LHARK, None, None, T_A)
            else:
                h = header(2, s["method"].encode(), len(s["data"]), s["length"], s["crc"] or 0, b"f", U, None, None, T_A)
            lines.append("rdr cbskip plain 0 %s n,x" % hx(h + s["data"]))
        outs = run_lines_parallel(drv, lines)
        key = (b"root/f").hex()
        for s, o in zip(self.full, outs):
            t = o.split("|", 1)[1].split() if "|" in o else []
            plain = None
            for i, w in enumerate(t):
                if w == "F" and t[i + 1] == key:
                    plain = common.unhex(t[i + 4])
            if plain is not None and s["crc"] is None and len(plain) == s["length"]:
                s["crc"] = crc16(plain)
                s["plain"] = plain
            elif " x=1 " not in " " + o or plain is None or crc16(plain) != s["crc"] or len(plain) != s["length"]:
                s["plain"] = None          # a damaged member of the regression archives: not a seed
            else:
                s["plain"] = plain
        self.full = [s for s in self.full if s["plain"] is not None]
        if len(self.full) < 20:
            raise common.Broken("too few seeds extract")
        self.by = collections.defaultdict(list)
        for s in self.full:
            self.by[s["method"]].append(s)
        self.methods = sorted(self.by)
        self.mac = [s for s in self.full if "maclha" in s["path"] and s["length"] >= 128 and s["plain"][0] == 0
                    and 0 < s["plain"][1] < 64]

    def cut(self, s, k):
        """the same compressed stream declared k bytes long: a correct, smaller member"""
        k = min(k, s["length"])
        c = dict(s)
        c["length"], c["plain"] = k, s["plain"][:k]
        c["crc"] = crc16(c["plain"])
        if s["method"] == "-lz5-":
            c["cuts"] = lz5_safe_cuts(s["data"])
        elif len(s["data"]) > 1:
            n = len(s["data"])
            c["cuts"] = sorted(set([0, 1, n // 3, n // 2, n - 1]))
        return c

    def small(self, rnd, method=None, maxlen=600):
        m = method or rnd.choice(self.methods)
        s = rnd.choice(self.by[m])
        return self.cut(s, rnd.choice([0, 1, 5, 64, 65, 200, maxlen, rnd.randrange(maxlen + 1)]))


# ---------------------------------------------------------------- archives

def archive(members, trunc=None, trailer=b"\0"):
    b = b"".join(m.bytes() for m in members) + trailer
    if trunc is not None:
        b = b[:trunc]
    return b


def small_archives(pool, rnd):
    """the fixed set for the exhaustive family: (name, bytes)"""
    S = lambda m, k=300: pool.cut(pool.by[m][-1], k)
    r = random.Random(7)
    A = []
    A.append(("lh0", [file_member(r, S("-lh0-", 12), b"a.txt", 2)]))
    A.append(("lh5+lh0", [file_member(r, S("-lh5-"), b"x", 1), file_member(r, S("-lh0-", 7), b"y", 0)]))
    A.append(("dir555", [dir_member(r, b"d/", 2, 0o40555), file_member(r, S("-lh0-", 9), b"d/in", 2),
                         file_member(r, S("-lh1-", 100), b"out", 1)]))
    A.append(("nested", [dir_member(r, b"d/", 1, 0o40700), dir_member(r, b"d/e/", 2, 0o40500),
                         file_member(r, S("-lz5-", 50), b"d/e/f", 2), dir_member(r, b"g/", 0, None, ts=T_C)]))
    A.append(("danger", [link_member(r, b"l", b"../outside", 2), file_member(r, S("-lh0-", 5), b"l/w", 2),
                         link_member(r, b"ll", b"/outside/f", 1)]))
    A.append(("safelink", [dir_member(r, b"d/", 2), link_member(r, b"s", b"d", 2),
                           file_member(r, S("-lzs-", 80), b"s/t", 2, perms=0o104755)]))
    A.append(("mac", [mac_member(r, b"m", "valid", 2), mac_member(r, b"p", "plainfile", 1)]))
    A.append(("macshort", [mac_member(r, b"m", "short", 2), file_member(r, S("-lh0-", 4), b"z", 2)]))
    A.append(("badcrc", [file_member(r, S("-lh6-"), b"b", 2, bad="crc"), file_member(r, S("-pm2-", 128), b"g", 1)]))
    A.append(("unknown", [file_member(r, S("-lh0-", 10), b"u", 2, bad="method"), file_member(r, S("-lh7-"), b"v", 3)]))
    A.append(("badlen", [file_member(r, S("-lh5-", 200), b"b", 2, bad="len+"), file_member(r, S("-pm1-", 90), b"c", 2, bad="clen-")]))
    res = [(n, archive(ms)) for n, ms in A]
    t = archive([file_member(r, S("-lh5-"), b"x", 2), file_member(r, S("-lh0-", 30), b"y", 2)])
    res.append(("truncated", t[:len(t) - 20]))
    return res


NAMES = [b"a", b"b", b"f.txt", b"README", b"UPPER.TXT", b"sp ace", b"\xe9\xff", b"x" * 40, b"..", b".", b"...",
         b"a\\b", b"c:\\d", b"nul\0hidden", b"|", b"-", b"~"]
DIRS = [b"", b"", b"d/", b"d/e/", b"d/e/g/", b"h/", b"h/i/", b"D/", b"../", b"../outside/", b"d/../", b"./d/",
        b"/outside/", b"/root/j/", b"d//e/", b"s/", b"l/", b"/", b"d/./e/", b"\\d\\"]
TARGETS_SAFE = [b"d", b"d/e", b"a", b"h", b"nowhere", b"d/", b"f.txt", b"s", b"h/i", b".", b"x/y/z"]
TARGETS_DANGER = [b"..", b"../outside", b"/outside", b"/outside/f", b"/", b"d/../../outside", b"../root/d", b"/root",
                  b"/foreign/ww", b"d/..", b"./../outside/f", b"/foreign/rf"]
PERMS_F = [None, 0o100644, 0o100600, 0o100444, 0o100000, 0o100755, 0o104755, 0o102711, 0o100222, 0o644, 0o106777]
PERMS_D = [None, 0o40755, 0o40555, 0o40500, 0o40700, 0o40000, 0o40300, 0o41777, 0o42755, 0o755]
UIDGID = [None, None, (0, 0), (1000, 1000), (65534, 1), (1, 65534), (65535, 65535)]
STAMPS = [T_A, T_B, T_C, 1, 0, 1234567890]


def random_archive(pool, rnd):
    """returns (bytes, [Member])"""
    n = rnd.choice([1, 2, 3, 3, 4, 5, 6, 8, 12])
    dirs = [rnd.choice(DIRS) for _ in range(3)] + [b"", b"d/"]
    ms = []
    made_dirs = []
    for _ in range(n):
        r = rnd.random()
        d = rnd.choice(dirs + made_dirs)
        if r < 0.22:
            p = rnd.choice(DIRS[2:]) if rnd.random() < 0.6 else d + rnd.choice([b"n/", b"e/", b"k/"])
            ms.append(dir_member(rnd, p, None, rnd.choice(PERMS_D), rnd.choice(UIDGID), rnd.choice(STAMPS),
                                 rnd.choice([U, U, U, lb.OS_MSDOS, lb.OS_AMIGA, MAC])))
            made_dirs.append(p)
        elif r < 0.36:
            danger = rnd.random() < 0.55
            t = rnd.choice(TARGETS_DANGER if danger else TARGETS_SAFE)
            ms.append(link_member(rnd, d + rnd.choice([b"l", b"s", b"ll", b"a", b"d", b"lnk"]), t, None,
                                  rnd.choice(STAMPS), rnd.choice(UIDGID)))
        elif r < 0.50:
            v = rnd.choice(["valid", "valid", "res-only", "version", "name", "time", "earlytime", "forklen", "nonzero",
                            "plainfile", "tiny", "short", "short", "badcrc"])
            if v == "valid" and pool.mac and rnd.random() < 0.15:
                s = rnd.choice(pool.mac)
                ms.append(mac_seed_member(rnd, s, s["plain"], rnd.choice([1, 2, 3])))
            else:
                ms.append(mac_member(rnd, d + rnd.choice(NAMES[:6] + [b"m", b"l"]), v, None, rnd.choice(STAMPS[:3]),
                                     rnd.choice(PERMS_F)))
        else:
            bad = rnd.choice([None] * 7 + ["crc", "len+", "len-", "clen-", "method"])
            if rnd.random() < 0.04:
                s = rnd.choice(pool.full)
                s = pool.cut(s, s["length"])                   # a whole real member now and then
            else:
                s = pool.small(rnd)
            os_ = rnd.choice([U] * 6 + [lb.OS_MSDOS, lb.OS_UNKNOWN, lb.OS_AMIGA, lb.OS_OS2, MAC])
            ms.append(file_member(rnd, s, d + rnd.choice(NAMES + [b"l", b"s", b"d"]), None, os_, rnd.choice(PERMS_F),
                                  rnd.choice(UIDGID), rnd.choice(STAMPS), bad))
    b = archive(ms, trailer=rnd.choice([b"\0", b"", b"\0\0\0", b"garbage"]))
    r = rnd.random()
    if r < 0.10:
        b = b[:rnd.randrange(len(b) + 1)]
    elif r < 0.13 and b"-lz5-" not in b:
        # (not with -lz5- members: a flipped bit could make one end inside a copy command)
        i = rnd.randrange(len(b))
        b = b[:i] + bytes([b[i] ^ (1 << rnd.randrange(8))]) + b[i + 1:]
    return b, ms


def tree_archive(pool, rnd):
    """a well-formed archive: directories listed before their contents (nested; read-only ones too),
    either in preorder or with all directories first and the contents of siblings interleaved"""
    alld = [b"d/", b"d/e/", b"d/e/g/", b"h/", b"h/i/", b"k/", b"d/n/"]
    chosen = set()
    for d in rnd.sample(alld, rnd.choice([1, 2, 3, 4])):
        parts = d.split(b"/")[:-1]
        for i in range(1, len(parts) + 1):
            chosen.add(b"/".join(parts[:i]) + b"/")
    dirs = sorted(chosen)
    lv = rnd.choice([None, None, 0, 1, 2, 3])

    def content(d):
        r = rnd.random()
        nm = d + rnd.choice([b"a", b"b", b"f.txt", b"README", b"l", b"s", b"m"])
        if r < 0.68:
            bad = rnd.choice([None] * 9 + ["crc", "clen-"])
            return file_member(rnd, pool.small(rnd), nm, lv, U, rnd.choice(PERMS_F), rnd.choice(UIDGID),
                               rnd.choice(STAMPS), bad)
        if r < 0.78:
            return link_member(rnd, nm, rnd.choice([b"a", b"f.txt", b"e", b"i", b"nowhere", b"e/g", b"b"]), lv)
        if r < 0.90:
            return link_member(rnd, nm, rnd.choice(TARGETS_DANGER + [b"../a", b"../../root/h", b"../h"]), lv)
        return mac_member(rnd, nm, rnd.choice(["valid", "valid", "res-only", "plainfile", "name", "tiny", "short"]),
                          None if lv in (None, 0) else lv)

    dm = {d: dir_member(rnd, d, lv, rnd.choice(PERMS_D + [0o40555, 0o40500, 0o40755]), rnd.choice(UIDGID),
                        rnd.choice(STAMPS)) for d in dirs if rnd.random() < 0.92}
    ms = []
    if rnd.random() < 0.6:
        for d in dirs:                                   # preorder
            if d in dm:
                ms.append(dm[d])
            ms += [content(d) for _ in range(rnd.choice([0, 1, 1, 2, 3]))]
    else:
        ms += [dm[d] for d in dirs if d in dm]           # all directories first, contents interleaved
        cs = [content(d) for d in dirs for _ in range(rnd.choice([0, 1, 2]))]
        rnd.shuffle(cs)
        ms += cs
    for _ in range(rnd.choice([0, 1, 2])):
        ms.insert(rnd.randrange(len(ms) + 1), content(b""))
    if not ms:
        ms.append(content(b""))
    b = archive(ms, trailer=rnd.choice([b"\0", b""]))
    if rnd.random() < 0.06:
        b = b[:rnd.randrange(len(b) + 1)]
    return b, ms


def ops_extract_all(rnd, n_entries):
    """the way an extraction tool drives the API: next_file / extract until the end, with a few
    checks, reads and skipped entries in between; sometimes abandoned early"""
    ops = []
    for _ in range(min(19, 2 * n_entries + 2)):
        ops.append("n")
        r = rnd.random()
        ops.append("x" if r < 0.80 else "xm" if r < 0.88 else "c" if r < 0.93 else "r100000" if r < 0.97 else "n")
    if ops[-1] == "n":
        ops.pop()
    ops += ["n"] * rnd.choice([0, 1, 2])
    if rnd.random() < 0.15:
        ops = ops[:rnd.randrange(len(ops) + 1)]
    return ops[:40]


READS = ["r0", "r1", "r5", "r64", "r127", "r128", "r129", "r1000", "r4096", "r100000"]
XF = [b"zz", b"d/zz", b"../outside/q", b"/outside/q2", b"l", b"d", b"", b"s/zz", b"nodir/zz", b"d/"]


def ops_ok(rnd, n_entries):
    """a sequence that uses the API as intended"""
    ops = []
    limit = rnd.choice([2, 4, 8, 15, 25, 40])
    entries = n_entries * 2 + rnd.choice([0, 1, 3])       # fake directories and deferred links come on top
    for _ in range(entries + 2):
        ops.append("n")
        r = rnd.random()
        if r < 0.10:
            pass
        elif r < 0.30:
            ops += [rnd.choice(READS) for _ in range(rnd.choice([1, 1, 2, 3, 6]))]
        elif r < 0.45:
            ops.append(rnd.choice(["c", "c", "cm"]))
        else:
            ops.append(rnd.choice(["x"] * 6 + ["xm", "xm", "xf" + hx(rnd.choice(XF))]))
        if rnd.random() < 0.15:
            ops += [rnd.choice(READS) for _ in range(rnd.choice([1, 2]))]
        if len(ops) >= limit:
            break
    return ops[:40]


def ops_abuse(rnd):
    k = rnd.choice([3, 5, 8, 12, 20, 30, 40])
    alpha = ["n"] * 5 + ["x"] * 4 + ["c"] * 3 + ["cm", "xm", "r5", "r128", "r200", "r100000", "r0",
                                                "xf" + hx(rnd.choice(XF))]
    ops = [rnd.choice(alpha) for _ in range(k)]
    if rnd.random() < 0.8:
        ops[0] = "n"
    return ops


def case(kind, policy, arc, ops):
    return "rdr %s %s 0 %s %s" % (kind, policy, hx(arc), ",".join(ops) if ops else "-")


KINDS = ["file", "pipe", "cbskip", "cbnoskip"]
POLICIES = ["plain", "eod", "eof"]


def plain_ok(line):
    """without chroot only archives that cannot name an absolute location, climb above the scratch
    directory or reach the foreign part are comparable"""
    t = line.split()
    arc = common.unhex(t[4])
    ops = t[5]
    for bad in (b"..", b"/outside", b"/root", b"/foreign", b"|/", b"\xff\xff"):
        if bad in arc:
            return False
    for op in ops.split(","):
        if op.startswith("xf"):
            n = common.unhex(op[2:])
            if n.startswith(b"/") or b".." in n:
                return False
    return True


def first_diff(c, m):
    ct, mt = c.split(" "), m.split(" ")
    for i, (a, b) in enumerate(zip(ct, mt)):
        if a != b:
            return i, " ".join(ct[max(0, i - 6):i + 3])[:400], " ".join(mt[max(0, i - 6):i + 3])[:400]
    return min(len(ct), len(mt)), " ".join(ct[-8:])[:400], " ".join(mt[-8:])[:400]


# ---------------------------------------------------------------- oracles on the C output (independent of the model)

def parse_dump(d):
    """{location below S: (kind, perm, mtime, data|target)}"""
    t = d.split()
    tree, i = {}, 0
    while i < len(t):
        k = t[i]
        if k == "D" and i + 3 < len(t) + 1:
            tree[common.unhex(t[i + 1])] = ("D", t[i + 2], t[i + 3], None); i += 4
        elif k == "F" and i + 4 < len(t) + 1:
            tree[common.unhex(t[i + 1])] = ("F", t[i + 2], t[i + 3], common.unhex(t[i + 4])); i += 5
        elif k == "L" and i + 2 < len(t) + 1:
            tree[common.unhex(t[i + 1])] = ("L", None, None, common.unhex(t[i + 2])); i += 3
        else:
            break
    return tree


def hfield(tok, name):
    """value of name= in a printed header"""
    for w in tok.split(" "):
        if w.startswith(name + "="):
            return w[len(name) + 1:]
    return None


def hstr(v):
    return None if v in (None, "NULL") else common.unhex(v)


class Oracles:
    """what must hold of every C output line whatever the op sequence:
    A. an extract that returned 1 for a regular non-MacOS member left a file whose length and CRC-16 are
       those of the header (checked when the file can be located in the dump);
    B. nothing outside S/root changed unless the case names an outside location itself: an explicit
       extraction name outside, a header path that is absolute, or a dangerous link of the archive
       (reported with the cause)."""

    def __init__(self, initial):
        self.initial = {k: v for k, v in initial.items() if not k.startswith(b"root")}
        self.checked = self.unlocated = 0
        self.bad_crc = []
        self.outside = collections.Counter()
        self.outside_unexplained = []
        self.cov = collections.Counter()
        self.show_cov = False

    def look(self, line, out):
        if "|" not in out or "CHILD-FAILED" in out:
            return
        t = line.split()
        ops = t[5].split(",") if t[5] != "-" else []
        res, d = out.split("|", 1)
        parts = res.split(" ; ")
        tree = parse_dump(d)
        cur = None
        writes = {}
        explicit_out = abs_path = danger = False
        for op, r in zip(ops, parts):
            k = op[:2] if op.startswith("xf") else op[:1] if op[0] == "r" else op
            if op != "n":
                what = "none" if cur is None else ("fakedir" if hfield(cur, "st") == "NULL" else "deferred-link") \
                    if hfield(cur, "fake") == "1" else "dir" if hfield(cur, "m") == b"-lhd-".hex() and hfield(cur, "st") == "NULL" \
                    else "link" if hfield(cur, "m") == b"-lhd-".hex() else "macfile" if hfield(cur, "os") == "109" else "file"
                rr = r.split(" ")[0]
                rr = ("r>0" if not rr.startswith("r=0:") else "r=0") if k == "r" else rr
                self.cov["%s on %s: %s" % (k, what, rr)] += 1
            if op == "n":
                cur = r if r.startswith("n:H") else None
                self.cov["n: " + ("NULL" if cur is None else "fake" if hfield(cur, "fake") == "1" else "normal")] += 1
                if cur:
                    pth, st = hstr(hfield(cur, "p")), hstr(hfield(cur, "st"))
                    if pth and pth.startswith(b"/"):
                        abs_path = True
                    if st is not None and (st.startswith(b"/") or b".." in st.split(b"/")):
                        danger = True
            elif op.startswith("xf"):
                nm = common.unhex(op[2:])
                if nm.startswith(b"/") or b".." in nm.split(b"/"):
                    explicit_out = True
                writes.pop(nm, None)
            elif op in ("x", "xm") and cur:
                full = (hstr(hfield(cur, "p")) or b"") + (hstr(hfield(cur, "fn")) or b"")
                if r.startswith(op + "=1") and hfield(cur, "m") != b"-lhd-".hex() and hfield(cur, "os") != "109" \
                        and hfield(cur, "fake") == "0":
                    writes[full] = (int(hfield(cur, "l")), int(hfield(cur, "crc")))
                else:
                    writes.pop(full, None)
        links = any(v[0] == "L" for v in tree.values())
        for full, (ln, crc) in writes.items():
            comps = full.split(b"/")
            ent = tree.get(b"root/" + full)
            if links or full.startswith(b"/") or any(c in (b"", b".", b"..") for c in comps) or ent is None or ent[0] != "F":
                self.unlocated += 1
                continue
            self.checked += 1
            if len(ent[3]) != ln or crc16(ent[3]) != crc:
                self.bad_crc.append(line)
        rest = {k: v for k, v in tree.items() if not k.startswith(b"root")}
        if rest != self.initial:
            cause = "explicit name" if explicit_out else "absolute header path" if abs_path else \
                "dangerous link in the archive" if danger else None
            if cause is None:
                self.outside_unexplained.append(line)
            else:
                self.outside[cause] += 1

    def report(self):
        print("oracle A (extract=1 => file has the header's length and CRC): %d files checked, %d not locatable, %d VIOLATIONS"
              % (self.checked, self.unlocated, len(self.bad_crc)))
        print("oracle B (changes outside S/root): %s; unexplained: %d"
              % (", ".join("%d by %s" % (n, c) for c, n in self.outside.items()) or "none", len(self.outside_unexplained)))
        for l in (self.bad_crc + self.outside_unexplained)[:5]:
            print("   " + l[:3000])
        if self.show_cov:
            print("coverage (op on kind of current entry: result, from the C outputs):")
            for k, n in sorted(self.cov.items()):
                print("   %-40s %7d" % (k, n))


# ---------------------------------------------------------------- main

ALLCRASH = []


def main():
    ap = argparse.ArgumentParser()
    ap.add_argument("--seed", type=int, default=1)
    ap.add_argument("--quick", action="store_true")
    ap.add_argument("--random", type=int, default=None, help="number of random cases per random family")
    ap.add_argument("--model", default=None)
    ap.add_argument("--show", type=int, default=8)
    ap.add_argument("--dump-mismatches", default=None)
    ap.add_argument("--coverage", action="store_true", help="print how often each op met each kind of entry")
    ap.add_argument("--family", default=None, help="only the families whose name starts with this")
    ap.add_argument("--mem", action="store_true",
                    help="additionally compare the allocator's live block count after every op (driver built with "
                         "-DLHASA_VERIF and harness/c/verif_alloc.c) with the ledger coq/ReaderMem.v (model command rdrmem)")
    ap.add_argument("--memfail", type=int, default=0,
                    help="for N protocol-respecting cases fail each allocation request in turn and compare the C with "
                         "the ledger with failing allocations coq/ReaderMemFail.v (model command rdrmemfail)")
    ap.add_argument("--failinj", type=int, default=0,
                    help="C only: for N protocol-respecting cases fail each allocation request in turn")
    ap.add_argument("--leaks", action="store_true",
                    help="additionally run the C side alone, unprivileged (no chroot) under LeakSanitizer")
    a = ap.parse_args()
    rnd = random.Random(a.seed)
    t0 = time.time()
    model = a.model or common.build_model()
    cb = CBuild("rdr")
    try:
        drv = [cb.compile("drv_rdr", [os.path.join(CDIR, "drv_rdr.c")] + cb.lib_sources(), extra=["-I" + CDIR],
                          sanitize=True)]
        mode = subprocess.run(drv + ["--probe"], stdout=subprocess.PIPE).stdout.decode().strip()
        print("driver mode: %s (%s)" % (mode, "fork + chroot + setuid 65534 per case, ASan/UBSan" if mode == "chroot"
                                        else "no chroot: absolute paths, '..' and the foreign part are skipped"))
        pool = Pool(cb, drv, rnd)
        print("seeds: %d members, methods %s, %d MacLHA members" % (len(pool.full), " ".join(pool.methods), len(pool.mac)))
        fam = collections.OrderedDict()
        # 1. exhaustive
        alpha = ["n", "r5", "r100000", "c", "x"]
        seqs = [list(s) for k in range(0, (3 if a.quick else 4) + 1) for s in itertools.product(alpha, repeat=k)]
        ex = []
        i = 0
        for name, arc in small_archives(pool, rnd):
            for pol in POLICIES:
                for s in seqs:
                    ex.append(case(KINDS[i % 4], pol, arc, s))
                    i += 1
        fam["exhaustive(len<=%d)" % (3 if a.quick else 4)] = ex
        nr = a.random if a.random is not None else (2000 if a.quick else 15000)
        ok, abuse = [], []
        for _ in range(nr):
            if rnd.random() < 0.5:
                arc, ms = tree_archive(pool, rnd)
                ops = ops_extract_all(rnd, len(ms)) if rnd.random() < 0.7 else ops_ok(rnd, len(ms))
            else:
                arc, ms = random_archive(pool, rnd)
                ops = ops_ok(rnd, len(ms))
            ok.append(case(rnd.choice(KINDS), rnd.choice(POLICIES), arc, ops))
        for _ in range(nr):
            arc, ms = tree_archive(pool, rnd) if rnd.random() < 0.3 else random_archive(pool, rnd)
            abuse.append(case(rnd.choice(KINDS), rnd.choice(POLICIES), arc, ops_abuse(rnd)))
        fam["random-ok"] = ok
        fam["random-abuse"] = abuse
        total = bad = 0
        allbad = []
        init = run_lines_parallel(drv, [case("cbskip", "eod", b"\0", [])])[0]
        orc = Oracles(parse_dump(init.split("|", 1)[1]))
        orc.show_cov = a.coverage
        if a.family:
            fam = collections.OrderedDict((k, v) for k, v in fam.items() if k.startswith(a.family))
        for name, lines in fam.items():
            if mode != "chroot":
                lines = [l for l in lines if plain_ok(l)]
            t1 = time.time()
            cout = run_lines_parallel(drv, lines)
            t2 = time.time()
            mout = run_lines_parallel([model], lines)
            t3 = time.time()
            # FAULT 1411 / 1414: the model refuses to link reader->curr_file into dir_stack /
            # deferred_symlinks a second time (extracting one entry twice): the C overwrites the
            # _next field that is in use and its list becomes cyclic -- it carries on, and crashes
            # or not depending on what follows.  Not comparable; counted separately.
            def is_relink(m):
                return m.endswith("FAULT 1411") or m.endswith("FAULT 1414")

            def agree(c, m):
                if is_relink(m):                 # the results of the ops before the fault must still agree
                    return c.startswith(m[:m.rindex("FAULT")])
                return c == m
            relink = [(l, c, m) for l, c, m in zip(lines, cout, mout) if is_relink(m)]
            mism = [(l, c, m) for l, c, m in zip(lines, cout, mout) if not agree(c, m)]
            crashes = [(l, c) for l, c in zip(lines, cout) if "CHILD-FAILED" in c or c.startswith("CRASH") or c == "HANG"]
            faults = sum(1 for m in mout if "FAULT" in m or "OUTOFFUEL" in m or m.startswith("ERR"))
            if len(cout) != len(lines) or len(mout) != len(lines):
                print("  %s: output count differs (%d cases, C %d, model %d)" % (name, len(lines), len(cout), len(mout)))
                bad += 1
            print("%-22s %7d cases  %6d mismatches  %d C crashes  %d model faults (%d relink, of which C crashed: %d)   C %.0f cases/s, model %.0f cases/s"
                  % (name, len(lines), len(mism), len(crashes), faults, len(relink),
                     sum(1 for l, c, m in relink if "CHILD-FAILED" in c), len(lines) / max(t2 - t1, 1e-9),
                     len(lines) / max(t3 - t2, 1e-9)))
            ALLCRASH.extend(crashes)
            for l, c in zip(lines, cout):
                orc.look(l, c)
            total += len(lines)
            bad += len(mism)
            allbad += mism
            for l, c, m in mism[:a.show]:
                t = l.split()
                i, cc, mm = first_diff(c, m)
                print("  case : %s %s ops=%s  archive %d bytes" % (t[1], t[2], t[5], len(t[4]) // 2))
                print("  C    : ... " + cc)
                print("  model: ... " + mm)
        if a.dump_mismatches:
            with open(a.dump_mismatches, "w") as f:
                for l, c, m in allbad:
                    f.write(l + "\n#C " + c + "\n#M " + m + "\n")
            with open(a.dump_mismatches + ".crashes", "w") as f:
                for l, c in ALLCRASH:
                    f.write(l + "\n")
        orc.report()
        if a.mem or a.failinj or a.memfail:
            drvm = [cb.compile("drv_rdr_mem", [os.path.join(CDIR, "drv_rdr.c")] + cb.lib_sources() + common.alloc_sources(),
                               extra=["-I" + CDIR, "-DLHASA_VERIF"], sanitize=True, libs=common.WRAP)]
            if a.mem:
                nbad = mem_run(drvm, fam, model, a.show, a.dump_mismatches)
                bad += nbad
            if a.failinj:
                failinj_run(drvm, fam, a.failinj, a.dump_mismatches)
            if a.memfail:
                bad += memfail_run(drvm, fam, model, a.memfail, a.show, a.dump_mismatches)
        if a.leaks:
            leak_run(cb, drv, fam, model, dump=a.dump_mismatches)
        print("compared %d cases: %s  (%.1fs)" % (total, "all agree" if bad == 0 else "%d MISMATCHES" % bad,
                                                 time.time() - t0))
        return 0 if bad == 0 else 1
    finally:
        cb.close()


def protocol_ok(line):
    """the op sequence respects property C20's protocol: per entry at most one decode operation (reads in
    any piece sizes, or one check, or one extract -- further reads after it are harmless and allowed)"""
    ops = line.split()[5]
    first = True          # no decode operation yet for the current entry
    for op in ([] if ops == "-" else ops.split(",")):
        if op == "n":
            first = True
        elif op[0] == "r":
            first = False
        else:
            if not first:
                return False
            first = False
    return True


ALLOC_RE = re.compile(r" ALLOC req=(\d+) live=(\d+) bytes=\d+ peak=\d+ files=(\d+) failed=(\d+)")
RQ_RE = re.compile(r" rq=\d+")
FINAL_RE = re.compile(r" final=(\d+) files=(\d+)")


def mem_run(drvm, fam, model, show, dump):
    """C (accounting allocator) against the ledger: the lb= value after every op and after lha_reader_free, the
    live blocks and open files after the stream has been freed"""
    nbad = 0
    leaks_in_protocol = []
    for name, lines in fam.items():
        cout = [RQ_RE.sub("", c) for c in run_lines_parallel(drvm, lines)]
        mout = run_lines_parallel([model], ["rdrmem" + l[3:] for l in lines])
        cnt = collections.Counter()
        mism = []
        for l, c, m in zip(lines, cout, mout):
            ca, ma = ALLOC_RE.search(c), FINAL_RE.search(m)
            proto = protocol_ok(l)
            if ca and proto and (ca.group(2) != "0" or ca.group(3) != "0"):
                leaks_in_protocol.append((l, c))
            if "FAULT" in m or "OUTOFFUEL" in m:
                # the concrete model (1411/1414: an entry linked twice) or the ledger (15xx: a released
                # header freed or used, a freed decoder freed) stopped: the ops before must still agree
                site = m[m.rindex("FAULT"):] if "FAULT" in m else "OUTOFFUEL"
                cnt["model stopped: " + site + (" (within the protocol!)" if proto else "")] += 1
                if not ALLOC_RE.sub("", c).startswith(m[:m.rindex(site)]) or proto:
                    mism.append((l, c, m))
                continue
            if "CHILD-FAILED" in c or ca is None or ma is None:
                cnt["C crashed" if "CHILD-FAILED" in c else "unparsable"] += 1
                mism.append((l, c, m))
                continue
            same = ALLOC_RE.sub("", c) == FINAL_RE.sub("", m) and ca.group(2) == ma.group(1) and ca.group(3) == ma.group(2)
            cnt["agree" + (", leak predicted and observed" if same and ca.group(2) != "0" else "")] += same
            if not same:
                cnt["DISAGREE"] += 1
                mism.append((l, c, m))
        print("mem %-22s %6d cases (%d within the protocol): %s" % (
            name, len(lines), sum(1 for l in lines if protocol_ok(l)),
            ", ".join("%s %d" % kv for kv in sorted(cnt.items()))))
        nbad += len(mism)
        for l, c, m in mism[:show]:
            t = l.split()
            i, cc, mm = first_diff(ALLOC_RE.sub("", c), FINAL_RE.sub("", m))
            print("  case : %s %s ops=%s  archive %d bytes" % (t[1], t[2], t[5], len(t[4]) // 2))
            print("  C    : ... " + cc + "   " + (ALLOC_RE.search(c).group(0) if ALLOC_RE.search(c) else ""))
            print("  model: ... " + mm + "   " + (FINAL_RE.search(m).group(0) if FINAL_RE.search(m) else ""))
        if dump and mism:
            with open("%s.mem.%s" % (dump, name.split("(")[0]), "w") as f:
                for l, c, m in mism:
                    f.write(l + "\n#C " + c + "\n#M " + m + "\n")
    leaks_in_protocol.sort(key=lambda lc: len(lc[0]))
    print("mem: C leaks (live != 0 or files != 0 at exit) within the protocol: %d" % len(leaks_in_protocol))
    for l, c in leaks_in_protocol[:3]:
        print("   " + l[:2000] + "   " + ALLOC_RE.search(c).group(0))
    return nbad + len(leaks_in_protocol)


def dup_field_cases(rnd):
    """headers in which a string field is assigned more than once (an in-header name followed by a file-name
    extended header, the same extended header twice, a symbolic link assembled from both): the decoder
    has an old value in hand while it requests the new one"""
    data = b"hello"
    lines = []

    def member(lv, name, exts):
        f = {"level": lv, "method": b"-lh0-", "clen": len(data), "length": len(data), "crc": crc16(data), "os": U,
             "attr": 0x20, "time": DOS_B if lv == 1 else T_A, "exts": exts}
        if lv == 1:
            f["name"] = name
        return lb.build_header(f) + data
    dup = [[(1, b"first.txt"), (1, b"second name.txt")], [(2, b"a\xff"), (2, b"b\xffc\xff"), (1, b"f")],
           [(1, b"f"), (0x52, b"user1"), (0x52, b"user-two")], [(1, b"f"), (0x53, b"grp"), (0x53, b"group2")],
           [(1, b"n|target1"), (0x50, struct.pack("<H", 0o120777)), (1, b"n|t2")],
           [(2, b"d\xffl|..\xff"), (0x50, struct.pack("<H", 0o120777)), (1, b"x")],
           [(1, b"f"), (2, b"d\xff"), (1, b"g"), (2, b"e\xff")]]
    for lv in (1, 2, 3):
        for exts in dup:
            arc = member(lv, b"DIR\\BASENAME.TXT" if lv == 1 else b"", exts) + member(2, b"", [(1, b"after")]) + b"\0"
            for ops in (["n", "c", "n", "x", "n"], ["n", "x", "n", "n"], ["n", "n", "n"]):
                lines.append(case(rnd.choice(KINDS), "eod", arc, ops))
    return lines


TAIL_RE = re.compile(r" reads=\S+ skips=\S+ *$")


def memfail_run(drvm, fam, model, n, show, dump):
    """C with the k-th allocation request failing against coq/ReaderMemFail.v: results of every op (so the failure
    value of the affected call), lb= and rq= after every op and after lha_reader_free, balance at exit.
    Not compared: the dump of the tree and the stream's read/skip counters (when lha_arch_fopen's fdopen fails the
    C has created and removed the file; a failed header read stops in the middle of the header).  Progress
    callbacks are left out (cm -> c, xm -> x): a callback that fired before the failing request is not modelled."""
    cands = [l for name, ls in fam.items() if not name.startswith("random-abuse") for l in ls if protocol_ok(l)]
    cands.sort(key=lambda l: (len(l.split()[4]) > 6000, hashlib.md5(l.encode()).hexdigest()))
    cands = dup_field_cases(random.Random(11)) + cands[:n]

    def plain_ops(l):
        t = l.split()
        t[5] = ",".join({"cm": "c", "xm": "x"}.get(o, o) for o in t[5].split(","))
        return " ".join(t)
    cands = [plain_ops(l) for l in cands]
    base = run_lines_parallel(drvm, cands)
    lines = []
    for l, c in zip(cands, base):
        ma = ALLOC_RE.search(c)
        if not ma:
            continue
        t = l.split()
        for k in range(0, int(ma.group(1)) + 2):          # k = 0 and one beyond the last request: nothing fails
            lines.append(" ".join(t[:3] + [str(k)] + t[4:]))
    cout = run_lines_parallel(drvm, lines)
    mout = run_lines_parallel([model], ["rdrmemfail" + l[3:] for l in lines])

    def norm(o, rx):
        o = rx.sub("", o.split("|")[0].rstrip())
        return TAIL_RE.sub("", o).rstrip()
    cnt = collections.Counter()
    mism = []
    for l, c, m in zip(lines, cout, mout):
        ca, ma = ALLOC_RE.search(c), FINAL_RE.search(m)
        if "CHILD-FAILED" in c or ca is None:
            cnt["C crashed"] += 1
            mism.append((l, c, m))
        elif "FAULT" in m or ma is None:
            cnt["model stopped"] += 1
            mism.append((l, c, m))
        elif norm(c, ALLOC_RE) == norm(m, FINAL_RE) and ca.group(2) == ma.group(1) and ca.group(3) == ma.group(2):
            cnt["agree" + (" (a request failed)" if ca.group(4) != "0" else " (no request failed)")] += 1
            if ca.group(2) != "0" or ca.group(3) != "0":
                cnt["BLOCKS OR FILES HELD AT EXIT"] += 1
                mism.append((l, c, m))
        else:
            cnt["DISAGREE"] += 1
            mism.append((l, c, m))
    print("memfail: %d cases, %d runs: %s" % (len(cands), len(lines), ", ".join("%s %d" % kv for kv in sorted(cnt.items()))))
    mism.sort(key=lambda x: len(x[0]))
    for l, c, m in mism[:show]:
        t = l.split()
        i, cc, mm = first_diff(norm(c, ALLOC_RE), norm(m, FINAL_RE))
        print("  case : rdr %s %s %s <%d bytes> %s" % (t[1], t[2], t[3], len(t[4]) // 2, t[5]))
        print("  C    : ... " + cc + "   " + (ALLOC_RE.search(c).group(0) if ALLOC_RE.search(c) else ""))
        print("  model: ... " + mm + "   " + (FINAL_RE.search(m).group(0) if FINAL_RE.search(m) else m[-60:]))
    if dump and mism:
        with open(dump + ".memfail", "w") as f:
            for l, c, m in mism:
                f.write(l + "\n#C " + c + "\n#M " + m + "\n")
    return len(mism)


def failinj_run(drvm, fam, n, dump):
    """C only: every allocation request of a case fails in turn (the 4th field of the case line is the index
    of the failing request).  Reported: crashes, and blocks or files still held at exit."""
    cands = [l for name, ls in fam.items() if not name.startswith("random-abuse") for l in ls if protocol_ok(l)]
    cands.sort(key=lambda l: (len(l.split()[4]) > 4000, hashlib.md5(l.encode()).hexdigest()))
    cands = cands[:n]
    base = run_lines_parallel(drvm, cands)
    lines = []
    for l, c in zip(cands, base):
        ma = ALLOC_RE.search(c)
        if not ma:
            continue
        t = l.split()
        for k in range(1, int(ma.group(1)) + 1):
            lines.append(" ".join(t[:3] + [str(k)] + t[4:]))
    out = run_lines_parallel(drvm, lines)
    crash, held, nofail = [], [], 0
    for l, c in zip(lines, out):
        ma = ALLOC_RE.search(c)
        if "CHILD-FAILED" in c or ma is None:
            crash.append((l, c))
        elif ma.group(2) != "0" or ma.group(3) != "0":
            held.append((l, c))
        elif ma.group(4) == "0":
            nofail += 1
    print("failinj: %d cases, %d runs (one per allocation request); %d crashed, %d held blocks or files at exit, "
          "%d never reached the failing request" % (len(cands), len(lines), len(crash), len(held), nofail))
    for what, ls in (("crash", crash), ("held", held)):
        ls.sort(key=lambda lc: len(lc[0]))
        for l, c in ls[:4]:
            t = l.split()
            print("   %s: rdr %s %s %s <%d bytes> %s   %s" % (what, t[1], t[2], t[3], len(t[4]) // 2, t[5],
                                                          (ALLOC_RE.search(c).group(0) if ALLOC_RE.search(c) else c[-120:])))
            print("   " + l[:1500])
        if dump and ls:
            with open("%s.failinj.%s" % (dump, what), "w") as f:
                f.write("".join(l + "\n" for l, c in ls))


def leak_run(cb, drv, fam, model, limit=3000, dump=None):
    """the C side alone, as uid 65534 without chroot (LeakSanitizer needs /proc and ptrace), one leak check per case"""
    os.chmod(cb.dir, 0o755)
    cmd = (["setpriv", "--reuid=65534", "--regid=65534", "--clear-groups"] if os.geteuid() == 0 else []) + drv + ["--leaks"]
    env = {"ASAN_OPTIONS": "detect_leaks=1:abort_on_error=0:exitcode=99:allocator_may_return_null=1"}
    for name, ls in fam.items():
        # (no filter needed: nothing the generators name outside the scratch directory exists for, or is
        # writable by, uid 65534 -- /outside, /root/..., /foreign/... -- and the outputs are not compared)
        lines = ls[:limit]
        out = run_lines_parallel(cmd, lines, env=env)
        leaky = [(l, o) for l, o in zip(lines, out) if "LEAK=1" in o]
        # the model's prediction (Reader.v: read_loses_decoder / check_loses_decoder)
        pred = run_lines_parallel([model], ["rdrleak" + l[3:] for l in lines])
        # (only where the missing chroot cannot change the course of events: no absolute or '..' paths)
        cmpd = [(l, o, p_) for l, o, p_ in zip(lines, out, pred)
                if p_ != "FAULT" and "CHILD-FAILED" not in o and plain_ok(l)]
        wrong = [(l, o, p_) for l, o, p_ in cmpd if (p_ + " ") not in o]
        print("leak prediction of the model vs LeakSanitizer: %d cases compared, %d disagree" % (len(cmpd), len(wrong)))
        if dump and wrong:
            with open("%s.leakwrong.%s" % (dump, name.split("(")[0]), "w") as f:
                f.write("".join(l + "\n" for l, o, p_ in wrong))
        for l, o, p_ in wrong[:3]:
            print("   model %s, C %s: %s" % (p_, "LEAK=1" if "LEAK=1" in o else "LEAK=0", l[:1200]))
        print("leak run %-22s %6d cases, %d with a LeakSanitizer report"
              % (name, len(lines), len(leaky)))
        leaky.sort(key=lambda lo: len(lo[0]))
        if dump:
            with open("%s.leaks.%s" % (dump, name.split("(")[0]), "w") as f:
                f.write("".join(l + "\n" for l, o in leaky))
        for l, o in leaky[:3]:
            t = l.split()
            print("   shortest: rdr %s %s 0 <%d bytes> %s" % (t[1], t[2], len(t[4]) // 2, t[5]))
            print("   " + l[:1500])


if __name__ == "__main__":
    sys.exit(main())

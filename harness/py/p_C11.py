"""C11 -- returned paths never contain '.', '..' or empty components; names contain no '/'."""
import os, random, itertools, collections, struct
import common, lhabuild as lb, hdrgen
from common import CBuild

PID = "C11"
TRUSTED = ["C driver harness/c/drv_hdr.c", "path invariant evaluated by harness/py/lhabuild.py (path_ok, name_ok)"]
ASSUMPTIONS = []
ALPHA = [b".", b"/", b"\\", b"\xff", b"\0", b"a"]


def build(cb):
    return cb.compile("drv_hdr", [os.path.join(common.CDIR, "drv_hdr.c")] + cb.lib_sources())


def sources(s, os_type):
    """member headers that carry the string s through each name source"""
    base = {"clen": 0, "length": 0, "crc": 0, "attr": 0x20, "os": os_type}
    res = []
    if len(s) <= 200:
        res.append(dict(base, level=0, method=b"-lh0-", time=0x21, name=s or b"x"))
        res.append(dict(base, level=1, method=b"-lh0-", time=0x21, name=s or b"x", exts=[]))
    if s:
        res.append(dict(base, level=2, method=b"-lh0-", time=1, exts=[(1, b"file"), (2, s)]))
        res.append(dict(base, level=2, method=b"-lh0-", time=1, exts=[(2, b"dir\xff"), (1, s)]))
        res.append(dict(base, level=3, method=b"-lhd-", time=1, exts=[(2, s)]))
        # symlinks: name|target, in the filename header and split over path + filename
        res.append(dict(base, level=2, method=b"-lhd-", time=1, exts=[(0x50, struct.pack("<H", 0o120777)), (1, s + b"|t")]))
        res.append(dict(base, level=2, method=b"-lhd-", time=1, exts=[(0x50, struct.pack("<H", 0o120777)), (2, s), (1, b"l|" + s)]))
        res.append(dict(base, level=1, method=b"-lhd-", time=0x21, name=s + b"|" + s, exts=[(0x50, struct.pack("<H", 0o120777))]))
    return res


def parse_records(line):
    recs = []
    for part in line.split(" ; "):
        if part.startswith("H "):
            d = {}
            for tok in part.split():
                k, _, v = tok.partition("=")
                d[k] = v
            recs.append(d)
    return recs


def unhexs(v):
    if v == "NULL":
        return None
    return b"" if v == "-" else bytes.fromhex(v)


def run(ctx):
    rnd = random.Random(ctx.seed * 2750159 + 11)
    cb = CBuild(PID)
    viol, mism = [], []
    dist = collections.Counter()
    try:
        cexe = build(cb)
        maxlen = 5 if ctx.quick else 7
        strings = [b""]
        for n in range(1, maxlen + 1):
            for t in itertools.product(ALPHA, repeat=n):
                strings.append(b"".join(t))
        dist["exhaustive_strings"] = len(strings)
        nrand = 1500 if ctx.quick else 40000
        for _ in range(nrand):
            n = rnd.choice([8, 9, 12, 20, 40, 100])
            strings.append(b"".join(rnd.choice(ALPHA + [b"..", b"./", b"../", b"/.", b"b", b"A", b"|"]) for _ in range(n))[:n])
        dist["random_strings"] = nrand
        # pack members into archives of ~40 headers; a header the library rejects ends the
        # archive, so every archive repeats on its own the members after a rejected one
        members = []
        for s in strings:
            for f in sources(s, rnd.choice([0, ord('M'), ord('U'), ord(' '), ord('2'), ord('a'), ord('K')])):
                members.append((s, lb.build_header(f)))
        lines, spans = [], []
        i = 0
        while i < len(members):
            chunk = members[i:i + 40]
            lines.append("hdr cbskip %s" % b"".join(h for _, h in chunk).hex())
            spans.append((i, len(chunk)))
            i += len(chunk)
        done = {}
        pending = list(range(len(lines)))
        rounds = 0
        all_lines = []
        nrecs = 0
        bad_paths = 0
        total_cases = 0
        cur_lines, cur_spans = lines, spans
        while cur_lines and rounds < 60:
            rounds += 1
            co = common.run_lines_parallel([cexe], cur_lines)
            mo = common.run_lines_parallel([ctx.model], cur_lines)
            nxt_lines, nxt_spans = [], []
            for ln, (start, cnt), c, m in zip(cur_lines, cur_spans, co, mo):
                total_cases += 1
                if c != m:
                    mism.append({"case": ln[:3000], "c": c[:600], "model": m[:600]})
                recs = parse_records(c)
                if not c.startswith("H ") and not c.startswith("E "):
                    viol.append({"property": PID, "kind": "abnormal", "case": ln[:3000], "observed": c[:300], "sig": "crash"})
                    continue
                for k, r in enumerate(recs):
                    nrecs += 1
                    fn, p = unhexs(r["fn"]), unhexs(r["p"])
                    if not lb.name_ok(fn) or not lb.path_ok(p):
                        s, h = members[start + k]
                        viol.append({"property": PID, "kind": "path-invariant", "stored_string": s.hex(),
                                     "case": "hdr cbskip %s" % h.hex(), "filename": r["fn"], "path": r["p"],
                                     "sig": "path:" + r["p"][:16]})
                # members after the first rejected one were not examined: re-run them
                consumed = len(recs) + 1
                if consumed < cnt:
                    rest = members[start + consumed:start + cnt]
                    nxt_lines.append("hdr cbskip %s" % b"".join(h for _, h in rest).hex())
                    nxt_spans.append((start + consumed, len(rest)))
            cur_lines, cur_spans = nxt_lines, nxt_spans
        cov = {"evaluations": len(members), "distinct_nontrivial": nrecs,
               "rule": "every string over {'.','/','\\\\',0xFF,NUL,'a'} up to length %d (exhaustive) plus %d longer random strings, each "
                       "carried through 8 name sources (level-0/1 in-header name, path and filename extended headers, directory path, "
                       "three symlink forms) under OS types that do and do not fold case; non-trivial = header actually returned by "
                       "the library (its path/filename were checked against the invariant)" % (maxlen, nrand),
               "exhaustive": True, "headers_returned": nrecs, "driver_runs": total_cases,
               "distribution": dict(dist), "samples": [strings[7].hex(), strings[300].hex(), lines[0][:160]]}
        return {"violations": viol[:10], "mismatches": mism[:10], "coverage": cov,
                "search_note": "direct oracle: path_ok/name_ok on every header the C returned"}
    finally:
        cb.close()


def replay(payload):
    cb = CBuild(PID)
    try:
        cexe = build(cb)
        out = common.run_lines_parallel([cexe], [payload["case"]])
        print("observed:", out[0][:600])
        recs = parse_records(out[0])
        bad = any(not lb.name_ok(unhexs(r["fn"])) or not lb.path_ok(unhexs(r["p"])) for r in recs)
        print("REPRODUCED" if bad else "not reproduced")
        return 1 if bad else 0
    finally:
        cb.close()

"""C11 -- returned paths never contain '.', '..' or empty components; names contain no '/'."""
import os, random, itertools, collections, struct
import common, lhabuild as lb, hdrgen
from common import CBuild

PID = "C11"
TRUSTED = ["C driver harness/c/drv_hdr.c", "path invariant evaluated by harness/py/lhabuild.py (path_ok, name_ok)"]
ASSUMPTIONS = []
ALPHA = [b".", b"/", b"\\", b"\xff", b"\0", b"a"]


def build(cb):
    return cb.compile("drv_hdr", [os.path.join(common.CDIR, "drv_hdr.c")] + cb.lib_sources())


def sources(s, os_type):
    """member headers that carry the string s through each name source"""
    base = {"clen": 0, "length": 0, "crc": 0, "attr": 0x20, "os": os_type}
    res = []
    if len(s) <= 200:
        res.append(dict(base, level=0, method=b"-lh0-", time=0x21, name=s or b"x"))
        res.append(dict(base, level=1, method=b"-lh0-", time=0x21, name=s or b"x", exts=[]))
    if s:
        res.append(dict(base, level=2, method=b"-lh0-", time=1, exts=[(1, b"file"), (2, s)]))
        res.append(dict(base, level=2, method=b"-lh0-", time=1, exts=[(2, b"dir\xff"), (1, s)]))
        res.append(dict(base, level=3, method=b"-lhd-", time=1, exts=[(2, s)]))
        # symlinks: name|target, in the filename header and split over path + filename
        res.append(dict(base, level=2, method=b"-lhd-", time=1, exts=[(0x50, struct.pack("<H", 0o120777)), (1, s + b"|t")]))
        res.append(dict(base, level=2, method=b"-lhd-", time=1, exts=[(0x50, struct.pack("<H", 0o120777)), (2, s), (1, b"l|" + s)]))
        res.append(dict(base, level=1, method=b"-lhd-", time=0x21, name=s + b"|" + s, exts=[(0x50, struct.pack("<H", 0o120777))]))
    return res


def extra_members(ctx, rnd, strings):
    """(stored string, header bytes) beyond the enumeration of sources() -- audit round 2:
    * every byte value 1..255 in the role of a would-be separator (a X .. X b X) under every OS type, through the level-1
      in-header name, path + file-name headers of levels 2 and 3 and a symlink: a fix-up that turns some other byte into
      '/' for some OS type must not bring '..' or a '/' in the name back;
    * the file-name and path headers at header levels 1 and 3, a level-1 header with both an in-header name and the
      headers, a level-3 file and a level-3 symlink (sources() has them at level 2 only);
    * strings of 200 .. 70000 bytes with '.', '..' and empty components at the start, in the middle and at the end."""
    res = []
    link = struct.pack("<H", 0o120777)
    # 1. any byte as separator x any OS type
    for x in range(1, 256):
        X = bytes([x])
        s = b"a" + X + b".." + X + b"b" + X + b"." + X
        for o in hdrgen.OSES:
            base = {"clen": 0, "length": 0, "crc": 0, "attr": 0x20, "os": o}
            res.append((s, dict(base, level=1, method=b"-lh0-", time=0x21, name=s + b"n", exts=[])))
            res.append((s, dict(base, level=2, method=b"-lh0-", time=1, exts=[(2, s), (1, s + b"n")])))
            res.append((s, dict(base, level=3, method=b"-lh0-", time=1, exts=[(1, s + b"n"), (2, s)])))
            res.append((s, dict(base, level=2, method=b"-lhd-", time=1, exts=[(0x50, link), (2, s), (1, s + b"|" + s)])))
        for area in (b"", bytes([ord('U'), 0]) + struct.pack("<IHHH", 7, 0o100644, 1, 2)):
            res.append((s, dict(clen=0, length=0, crc=0, attr=0x20, os=0, level=0, method=b"-lh0-", time=0x21, name=s + b"n", area=area)))
    # 2. levels / combinations not enumerated by sources()
    short = [t for t in strings if 0 < len(t) <= (4 if ctx.quick else 5)] + [t for t in strings if len(t) >= 8]
    for s in short:
        o = rnd.choice(hdrgen.OSES)
        base = {"clen": 0, "length": 0, "crc": 0, "attr": 0x20, "os": o}
        res.append((s, dict(base, level=1, method=b"-lh0-", time=0x21, name=b"n", exts=[(1, s)])))
        res.append((s, dict(base, level=1, method=b"-lh0-", time=0x21, name=b"n", exts=[(2, s)])))
        if len(s) <= 100:
            res.append((s, dict(base, level=1, method=b"-lh0-", time=0x21, name=s, exts=[(2, s), (1, s)])))
            res.append((s, dict(base, level=1, method=b"-lhd-", time=0x21, name=s, exts=[(0x50, link), (1, s + b"|" + s)])))
        res.append((s, dict(base, level=3, method=b"-lh0-", time=1, exts=[(2, s), (1, s)])))
        res.append((s, dict(base, level=3, method=b"-lhd-", time=1, exts=[(0x50, link), (2, s), (1, s + b"|t")])))
    # 3. long strings
    toks = [b"..", b".", b"", b"a", b"bb", b"..", b"x" * 50, b"y" * 300]
    for n in [200, 225, 300, 1025, 1500, 5000, 40000, 70000]:
        for sep in (b"/", b"\\", b"\xff"):
            for shape in range(3):
                body = []
                ln = 0
                while ln < n:
                    t = rnd.choice(toks)
                    body.append(t)
                    ln += len(t) + 1
                bad = [b"..", b"..", b".", b""]
                if shape == 0:
                    body = bad + body
                elif shape == 1:
                    body = body + bad
                else:
                    body = body[:len(body) // 2] + bad + body[len(body) // 2:]
                s = sep.join(body) + sep
                base = {"clen": 0, "length": 0, "crc": 0, "attr": 0x20, "os": rnd.choice(hdrgen.OSES)}
                if len(s) <= 228:
                    res.append((s, dict(base, level=1, method=b"-lh0-", time=0x21, name=s + b"n", exts=[])))
                    res.append((s, dict(base, level=0, method=b"-lh0-", time=0x21, name=s + b"n")))
                if len(s) < 32000:
                    res.append((s, dict(base, level=2, method=b"-lh0-", time=1, exts=[(2, s), (1, s)])))
                    res.append((s, dict(base, level=1, method=b"-lh0-", time=0x21, name=b"n", exts=[(2, s), (1, s)])))
                res.append((s, dict(base, level=3, method=b"-lh0-", time=1, exts=[(1, s), (2, s)])))
                res.append((s, dict(base, level=3, method=b"-lhd-", time=1, exts=[(0x50, link), (2, s), (1, b"l|t")])))
    return [(s, lb.build_header(f)) for (s, f) in res if len(s) < 190], [(s, lb.build_header(f)) for (s, f) in res if len(s) >= 190]


def parse_records(line):
    recs = []
    for part in line.split(" ; "):
        if part.startswith("H "):
            d = {}
            for tok in part.split():
                k, _, v = tok.partition("=")
                d[k] = v
            recs.append(d)
    return recs


def complete_line(c):
    """a driver line that ends with its end record (E n=.. again=..); anything else is a crash, a hang or a line cut short"""
    last = c.split(" ; ")[-1]
    return (last.startswith("E n=") and " again=" in last) or c in ("E streamfail", "E newfail")


def unhexs(v):
    if v == "NULL":
        return None
    return b"" if v == "-" else bytes.fromhex(v)


def run(ctx):
    rnd = random.Random(ctx.seed * 2750159 + 11)
    cb = CBuild(PID)
    viol, mism = [], []
    dist = collections.Counter()
    try:
        cexe = build(cb)
        maxlen = 5 if ctx.quick else 7
        strings = [b""]
        for n in range(1, maxlen + 1):
            for t in itertools.product(ALPHA, repeat=n):
                strings.append(b"".join(t))
        dist["exhaustive_strings"] = len(strings)
        nrand = 1500 if ctx.quick else 40000
        for _ in range(nrand):
            n = rnd.choice([8, 9, 12, 20, 40, 100])
            strings.append(b"".join(rnd.choice(ALPHA + [b"..", b"./", b"../", b"/.", b"b", b"A", b"|"]) for _ in range(n))[:n])
        dist["random_strings"] = nrand
        # pack members into archives of ~40 headers; a header the library rejects ends the
        # archive, so every archive repeats on its own the members after a rejected one
        members = []
        for s in strings:
            for f in sources(s, rnd.choice([0, ord('M'), ord('U'), ord(' '), ord('2'), ord('a'), ord('K')])):
                members.append((s, lb.build_header(f)))
        extra, long_members = extra_members(ctx, random.Random(ctx.seed * 15485863 + 1111), strings)
        dist["extra_members"] = len(extra)
        dist["long_members_c_only"] = len(long_members)
        members += extra
        lines, spans = [], []
        i = 0
        while i < len(members):
            chunk = members[i:i + 40]
            lines.append("hdr cbskip %s" % b"".join(h for _, h in chunk).hex())
            spans.append((i, len(chunk)))
            i += len(chunk)
        done = {}
        pending = list(range(len(lines)))
        rounds = 0
        all_lines = []
        nrecs = 0
        bad_paths = 0
        total_cases = 0
        cur_lines, cur_spans = lines, spans
        singled = 0          # archives re-run member by member after an abnormal line (the first three only)
        while cur_lines and rounds < 60:
            rounds += 1
            co = common.run_lines_parallel([cexe], cur_lines)
            mo = common.run_lines_parallel([ctx.model], cur_lines)
            nxt_lines, nxt_spans = [], []
            for ln, (start, cnt), c, m in zip(cur_lines, cur_spans, co, mo):
                total_cases += 1
                if c != m:
                    mism.append({"case": ln[:3000], "c": c[:600], "model": m[:600]})
                if not complete_line(c) and singled >= 3:
                    viol.append({"property": PID, "kind": "abnormal", "case": ln[:3000], "observed": c[:300], "sig": "crash"})
                    continue
                if not complete_line(c):
                    singled += 1
                    # the driver died in this archive (its line is cut short, or it -- or, blamed by position, the archive before
                    # it -- is reported as CRASH/HANG): run the members one by one to find the header that does it
                    singles = ["hdr cbskip %s" % h.hex() for _, h in members[start:start + cnt]]
                    found = False
                    for sl, sc in zip(singles, common.run_lines_parallel([cexe], singles)):
                        total_cases += 1
                        if not complete_line(sc):
                            viol.append({"property": PID, "kind": "abnormal", "case": sl, "observed": sc[:300], "sig": "crash"})
                            found = True
                            continue
                        for r in parse_records(sc):
                            nrecs += 1
                            if not lb.name_ok(unhexs(r["fn"])) or not lb.path_ok(unhexs(r["p"])):
                                viol.append({"property": PID, "kind": "path-invariant", "case": sl, "filename": r["fn"], "path": r["p"],
                                             "sig": "path:" + r["p"][:16]})
                    if not found and not c.startswith("CRASH"):
                        viol.append({"property": PID, "kind": "abnormal", "case": ln[:3000], "observed": c[:300], "sig": "crash"})
                    continue
                recs = parse_records(c)
                for k, r in enumerate(recs):
                    nrecs += 1
                    fn, p = unhexs(r["fn"]), unhexs(r["p"])
                    if not lb.name_ok(fn) or not lb.path_ok(p):
                        s, h = members[start + k]
                        viol.append({"property": PID, "kind": "path-invariant", "stored_string": s.hex(),
                                     "case": "hdr cbskip %s" % h.hex(), "filename": r["fn"], "path": r["p"],
                                     "sig": "path:" + r["p"][:16]})
                # members after the first rejected one were not examined: re-run them
                consumed = len(recs) + 1
                if consumed < cnt:
                    rest = members[start + consumed:start + cnt]
                    nxt_lines.append("hdr cbskip %s" % b"".join(h for _, h in rest).hex())
                    nxt_spans.append((start + consumed, len(rest)))
            cur_lines, cur_spans = nxt_lines, nxt_spans
        # strings of 200 .. 70000 bytes: C only (the extracted model's list-based parser needs minutes for them); the
        # invariant is evaluated directly on what the C returns, one member per line
        llines = ["hdr cbskip %s" % h.hex() for _, h in long_members]
        for ln, (s_, h_), c in zip(llines, long_members, common.run_lines_parallel([cexe], llines)):
            total_cases += 1
            if not complete_line(c):
                viol.append({"property": PID, "kind": "abnormal", "case": ln, "observed": c[:300], "sig": "crash"})
                continue
            for r in parse_records(c):
                nrecs += 1
                fn, p = unhexs(r["fn"]), unhexs(r["p"])
                if not lb.name_ok(fn) or not lb.path_ok(p):
                    viol.append({"property": PID, "kind": "path-invariant", "stored_string": s_.hex()[:2000], "case": ln,
                                 "filename": r["fn"][:300], "path": r["p"][:300], "sig": "path:" + r["p"][:16]})
        cov = {"evaluations": len(members) + len(long_members), "distinct_nontrivial": nrecs,
               "rule": "every string over {'.','/','\\\\',0xFF,NUL,'a'} up to length %d (exhaustive) plus %d longer random strings, each "
                       "carried through 8 name sources (level-0/1 in-header name, path and filename extended headers, directory path, "
                       "three symlink forms) under OS types that do and do not fold case; non-trivial = header actually returned by "
                       "the library (its path/filename were checked against the invariant); plus (extra_members) every byte 1..255 as a "
                       "would-be separator under every OS type, the file-name / path headers at levels 1 and 3 and together with an in-header "
                       "name, and strings of 200..70000 bytes with bad components at start / middle / end (these C only)" % (maxlen, nrand),
               "exhaustive": True, "headers_returned": nrecs, "driver_runs": total_cases,
               "distribution": dict(dist), "samples": [strings[7].hex(), strings[300].hex(), lines[0][:160]]}
        return {"violations": viol[:10], "mismatches": mism[:10], "coverage": cov,
                "search_note": "direct oracle: path_ok/name_ok on every header the C returned"}
    finally:
        cb.close()


def replay(payload):
    cb = CBuild(PID)
    try:
        cexe = build(cb)
        out = common.run_lines_parallel([cexe], [payload["case"]])
        print("observed:", out[0][:600])
        recs = parse_records(out[0]) if complete_line(out[0]) else []
        bad = not complete_line(out[0]) or any(not lb.name_ok(unhexs(r["fn"])) or not lb.path_ok(unhexs(r["p"])) for r in recs)
        print("REPRODUCED" if bad else "not reproduced")
        return 1 if bad else 0
    finally:
        cb.close()

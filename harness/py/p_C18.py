"""C18 -- archive-derived text printed by the tool is printable ASCII only."""
import os, random, collections, shutil, struct
from concurrent.futures import ThreadPoolExecutor
import common, lhabuild as lb, hdrgen
from common import CBuild

PID = "C18"
TRUSTED = ["direct scan of the bytes the real tool writes to stdout and stderr"]
ASSUMPTIONS = ["member data used in 'p' mode is itself printable, so every other byte is header-derived or the tool's own",
               "the theorems are about the tool model (ListOut.v, CliExtract.v, CliMain.v); the tool model is tied to the tool by the C06/C10 correspondence and by this byte scan"]
MODES = ["l", "lv", "v", "vv", "lq2", "vq1", "t", "tq1", "xn", "x", "xq0", "xq1", "xq2", "xf", "p", "pq", "e"]
ALLOWED = set(range(0x20, 0x7f)) | {9, 10, 13}


def hostile(rnd, n, lo=1):
    return bytes(rnd.choice([rnd.randrange(lo, 256), 0x1b, 0x07, 0x9b, 0x7f, 0xff, 0x0a, 0x0d, 0x08, 0x80, 0x41]) for _ in range(n))


def gen_archive(rnd):
    ms = b""
    n = rnd.randrange(1, 5)
    for i in range(n):
        lv = rnd.randrange(4)
        data = b"A" * rnd.choice([0, 3, 40])
        kind = rnd.choice(["file", "file", "dir", "symlink"])
        if i == 0:
            method = rnd.choice([b"-lh0-", b"-lh" + hostile(rnd, 1) + b"-", b"-lz" + rnd.choice([b"4", b"5", b"s"]) + b"-",
                                 b"-pm" + hostile(rnd, 1).replace(b"s", b"x") + b"-", b"-lhd-"])
        else:
            method = rnd.choice([b"-lh0-", hostile(rnd, 5), b"-lh" + hostile(rnd, 2), b"-lhd-", hostile(rnd, 2) + b"\0ab"])
        if kind != "file" and rnd.random() < 0.7:
            method = b"-lhd-"
        f = {"level": lv, "method": method, "clen": len(data), "length": len(data), "crc": lb.crc16(data),
             "attr": 0x20, "os": rnd.choice([0, ord('M'), ord('U'), ord('m'), ord('K'), 0x1b, 0xff]),
             "time": rnd.choice([0x21, 0x5a000000 >> 0, 1, 1500000000 & 0xffffffff])}
        name = hostile(rnd, rnd.choice([1, 3, 12, 40])).replace(b"/", b"_")
        path = b"".join(hostile(rnd, rnd.choice([1, 4])).replace(b"/", b"_").replace(b"\xff", b"_") + b"\xff" for _ in range(rnd.randrange(0, 3)))
        target = hostile(rnd, rnd.choice([1, 5, 30]))
        if lv in (0, 1):
            nm = (path.replace(b"\xff", b"\\") + name)[:150]
            if kind == "symlink":
                nm = nm[:60] + b"|" + target[:60]
            f["name"] = nm
            if lv == 1:
                f["exts"] = []
                if kind == "symlink":
                    f["exts"].append((0x50, struct.pack("<H", 0o120777)))
                if rnd.random() < 0.5:
                    f["exts"] += [(0x52, hostile(rnd, 8)), (0x53, hostile(rnd, 8))]
            elif kind == "symlink":
                f["area"] = bytes([ord('U'), 0]) + struct.pack("<I", 1) + struct.pack("<HHH", 0o120777, 1, 2)
        else:
            exts = []
            if path:
                exts.append((2, path))
            if kind == "symlink":
                exts += [(0x50, struct.pack("<H", 0o120777)), (1, name + b"|" + target)]
            elif kind == "dir":
                exts = [(2, (path or b"d\xff"))]
            else:
                exts.append((1, name))
            if rnd.random() < 0.5:
                exts += [(0x52, hostile(rnd, 8)), (0x53, hostile(rnd, 8)), (0x51, struct.pack("<HH", 1, 2))]
            rnd.shuffle(exts)
            f["exts"] = exts
        try:
            h = lb.build_header(f)
        except (ValueError, struct.error, OverflowError):
            continue
        ms += h + data
    return ms + b"\0"


def run(ctx):
    rnd = random.Random(ctx.seed * 433494437 + 18)
    cb = CBuild(PID)
    scratch = common.scratch_dir("c18")
    viol = []
    dist = collections.Counter()
    try:
        lha = common.build_lha(cb)
        if os.geteuid() == 0:
            os.chown(scratch, 65534, 65534)
        n = 150 if ctx.quick else 4000
        jobs = []
        for i in range(n):
            a = gen_archive(rnd)
            # a hostile method field that happens to spell a real compression method makes 'p' print whatever the
            # printable member data DEcompresses to: that is member data, not header text -- no p modes for such archives
            decodes = any(m in a for m in (b"-lh1-", b"-lh4-", b"-lh5-", b"-lh6-", b"-lh7-", b"-lhx-", b"-lzs-", b"-lz5-", b"-pm1-", b"-pm2-"))
            for mode in (rnd.sample(MODES, 5) if ctx.quick else MODES):
                if decodes and mode.startswith("p"):
                    continue
                jobs.append((len(jobs), a, mode))

        def one(job):
            i, a, mode = job
            d = os.path.join(scratch, "w%d" % i)
            os.makedirs(d, exist_ok=True)
            ap = os.path.join(d, "arc.lzh")
            open(ap, "wb").write(a)
            if os.geteuid() == 0:
                os.chown(d, 65534, 65534)
            rc, out, err = common.run_lha(lha, [mode, "arc.lzh"], cwd=d, as_nobody=True, stdin=b"y\n" * 20, now=1500000000)
            if os.geteuid() == 0:
                common.sh(["chmod", "-R", "u+rwx", d])
            shutil.rmtree(d, ignore_errors=True)
            return job, rc, out, err
        with ThreadPoolExecutor(max_workers=common.NCPU) as ex:
            results = list(ex.map(one, jobs))
        nontriv = 0
        for (i, a, mode), rc, out, err in results:
            dist[mode] += 1
            ab = common.abnormal(rc, err)
            if ab:
                viol.append({"property": PID, "kind": "tool-abnormal-termination", "mode": mode, "archive_hex": a.hex(), "observed": ab,
                             "sig": "crash"})
                continue
            if len(out) > 80:
                nontriv += 1
            for stream, data in (("stdout", out), ("stderr", err)):
                bad = [(k, b) for k, b in enumerate(data) if b not in ALLOWED]
                if bad:
                    k, b = bad[0]
                    viol.append({"property": PID, "kind": "unprintable-byte-in-output", "mode": mode, "stream": stream,
                                 "byte": b, "offset": k, "context": data[max(0, k - 40):k + 20].decode("latin1"),
                                 "archive_hex": a.hex(), "sig": "raw:%s:%s" % (mode[0], _column(data, k))})
                    break
        cov = {"evaluations": len(jobs), "distinct_nontrivial": nontriv,
               "rule": "archives of 1-4 members whose names, path components, link targets, user/group strings and method fields "
                       "(first member: only the byte the signature test leaves free; later members: all five bytes) hold bytes "
                       "0x01-0xFF incl. ESC, BEL, CSI, DEL, CR, LF, BS; levels 0-3; files, directories, symlinks; member data is "
                       "printable 'A's; every output byte of the real tool in the modes %s must be in {0x20..0x7E, LF, CR, TAB}. "
                       "non-trivial = run that printed more than 80 bytes" % " ".join(MODES),
               "distribution": dict(dist), "samples": [jobs[0][1].hex()[:200], jobs[1][2]]}
        return {"violations": viol[:10], "mismatches": [], "coverage": cov,
                "search_note": "direct oracle: byte scan of the tool's stdout and stderr"}
    finally:
        if os.geteuid() == 0:
            common.sh(["chmod", "-R", "u+rwx", scratch])
        shutil.rmtree(scratch, ignore_errors=True)
        cb.close()


def _column(data, k):
    """rough location of an offending byte within its line (stable signature for known findings)"""
    start = data.rfind(b"\n", 0, k) + 1
    return "col%d" % ((k - start) // 10)


def replay(payload):
    cb = CBuild(PID)
    d = common.scratch_dir("c18r")
    try:
        lha = common.build_lha(cb)
        open(os.path.join(d, "arc.lzh"), "wb").write(bytes.fromhex(payload["archive_hex"]))
        rc, out, err = common.run_lha(lha, [payload["mode"], "arc.lzh"], cwd=d, stdin=b"y\n" * 20, now=1500000000)
        bad = [b for b in out + err if b not in ALLOWED]
        print(out[:600]); print("unprintable bytes:", bad[:10])
        print("REPRODUCED" if bad else "not reproduced")
        return 1 if bad else 0
    finally:
        shutil.rmtree(d, ignore_errors=True)
        cb.close()

"""C18 -- archive-derived text printed by the tool is printable ASCII only."""
import os, random, collections, shutil, struct
from concurrent.futures import ThreadPoolExecutor
import common, lhabuild as lb, hdrgen
from common import CBuild

PID = "C18"
TRUSTED = ["direct scan of the bytes the real tool writes to stdout and stderr"]
ASSUMPTIONS = ["member data used in 'p' mode is itself printable, so every other byte is header-derived or the tool's own",
               "the theorems are about the tool model (ListOut.v, CliExtract.v, CliMain.v); the tool model is tied to the tool by the C06/C10 correspondence and by this byte scan"]
MODES = ["l", "lv", "v", "vv", "lq2", "vq1", "t", "tq1", "xn", "x", "xq0", "xq1", "xq2", "xf", "p", "pq", "e"]
ALLOWED = set(range(0x20, 0x7f)) | {9, 10, 13}


def hostile(rnd, n, lo=1):
    return bytes(rnd.choice([rnd.randrange(lo, 256), 0x1b, 0x07, 0x9b, 0x7f, 0xff, 0x0a, 0x0d, 0x08, 0x80, 0x41]) for _ in range(n))


def gen_archive(rnd):
    ms = b""
    n = rnd.randrange(1, 5)
    for i in range(n):
        lv = rnd.randrange(4)
        data = b"A" * rnd.choice([0, 3, 40])
        kind = rnd.choice(["file", "file", "dir", "symlink"])
        if i == 0:
            method = rnd.choice([b"-lh0-", b"-lh" + hostile(rnd, 1) + b"-", b"-lz" + rnd.choice([b"4", b"5", b"s"]) + b"-",
                                 b"-pm" + hostile(rnd, 1).replace(b"s", b"x") + b"-", b"-lhd-"])
        else:
            method = rnd.choice([b"-lh0-", hostile(rnd, 5), b"-lh" + hostile(rnd, 2), b"-lhd-", hostile(rnd, 2) + b"\0ab"])
        if kind != "file" and rnd.random() < 0.7:
            method = b"-lhd-"
        f = {"level": lv, "method": method, "clen": len(data), "length": len(data), "crc": lb.crc16(data),
             "attr": 0x20, "os": rnd.choice([0, ord('M'), ord('U'), ord('m'), ord('K'), 0x1b, 0xff]),
             "time": rnd.choice([0x21, 0x5a000000 >> 0, 1, 1500000000 & 0xffffffff])}
        name = hostile(rnd, rnd.choice([1, 3, 12, 40])).replace(b"/", b"_")
        path = b"".join(hostile(rnd, rnd.choice([1, 4])).replace(b"/", b"_").replace(b"\xff", b"_") + b"\xff" for _ in range(rnd.randrange(0, 3)))
        target = hostile(rnd, rnd.choice([1, 5, 30]))
        if lv in (0, 1):
            nm = (path.replace(b"\xff", b"\\") + name)[:150]
            if kind == "symlink":
                nm = nm[:60] + b"|" + target[:60]
            f["name"] = nm
            if lv == 1:
                f["exts"] = []
                if kind == "symlink":
                    f["exts"].append((0x50, struct.pack("<H", 0o120777)))
                if rnd.random() < 0.5:
                    f["exts"] += [(0x52, hostile(rnd, 8)), (0x53, hostile(rnd, 8))]
            elif kind == "symlink":
                f["area"] = bytes([ord('U'), 0]) + struct.pack("<I", 1) + struct.pack("<HHH", 0o120777, 1, 2)
        else:
            exts = []
            if path:
                exts.append((2, path))
            if kind == "symlink":
                exts += [(0x50, struct.pack("<H", 0o120777)), (1, name + b"|" + target)]
            elif kind == "dir":
                exts = [(2, (path or b"d\xff"))]
            else:
                exts.append((1, name))
            if rnd.random() < 0.5:
                exts += [(0x52, hostile(rnd, 8)), (0x53, hostile(rnd, 8)), (0x51, struct.pack("<HH", 1, 2))]
            rnd.shuffle(exts)
            f["exts"] = exts
        try:
            h = lb.build_header(f)
        except (ValueError, struct.error, OverflowError):
            continue
        ms += h + data
    return ms + b"\0"


# ---------------------------------------------------------------- directed families (audit round 4)
#
# The random archives above give every member its own random name, so the messages that need two members to agree
# on a name (overwrite prompt, "Skipped...", "Parent path ... is not a directory!", "Failed to read file type of",
# "Failed to create parent directory", "Failed to stat") never carry archive bytes, the dry runs of t and p are not
# among the modes, no printed string is longer than 255 bytes, and -- since TAB, CR and LF are the tool's own characters
# too -- a sanitiser that lets an archive's TAB, CR or LF through passes the byte scan.

NAME_BAD = b"/\\|\xff"


def hname(rnd, n):
    """a hostile name that can be a file name and a path component alike (no separator, no NUL, not '.' / '..')"""
    while True:
        b = bytes(c for c in hostile(rnd, n + 4) if c not in NAME_BAD)[:n]
        if b and b not in (b".", b"..") and any(c not in ALLOWED for c in b):
            return b


def _hdr(method, exts, data=b"", lv=2, name=None, os_=ord('U'), area=None):
    f = {"level": lv, "method": method, "clen": len(data), "length": len(data), "crc": lb.crc16(data), "attr": 0x20, "os": os_,
         "time": 0x5a000000 if lv >= 2 else 0x21, "exts": list(exts)}
    if lv in (0, 1):
        f["name"] = name or b""
    if area is not None:
        f["area"] = area
    return lb.build_header(f) + data


P_DIR, P_DIR_RO, P_LINK, P_FILE = ((0x50, struct.pack("<H", m)) for m in (0o40755, 0o40555, 0o120777, 0o100644))


def directed_cases(rnd, quick):
    """[(archive, mode, stdin, family)]: archives whose members agree on a hostile name"""
    res = []
    for _ in range(6 if quick else 120):
        n = hname(rnd, rnd.choice([1, 3, 9, 30]))
        s = hname(rnd, rnd.choice([1, 5]))
        t = hostile(rnd, rnd.choice([1, 6]))
        data = b"A" * rnd.choice([0, 3, 40])
        lv = rnd.choice([0, 1, 2, 2, 3])
        # the same file twice: the second one meets the first -> overwrite prompt on stderr; answer s -> "Skipped..."
        if lv >= 2:
            one = _hdr(b"-lh0-", [(1, n)], data, lv)
            sub = _hdr(b"-lh0-", [(1, n), (2, s + b"\xff")], data, lv)
        else:
            one = _hdr(b"-lh0-", [], data, lv, name=n[:60])
            sub = _hdr(b"-lh0-", [], data, lv, name=s + b"\\" + n[:60])
        for a, m, si in ((one + one, "x", b"y\n"), (one + one, "e", b"n\n"), (one + one + one, "x", b"s\n"), (one + one + one, "e", b"A\n"),
                         (sub + sub + sub, "x", b"S\n"), (sub + sub, "xi", b"n\ny\n"), (one + one, "xw=o", b"\n"),
                         (one + one, "xv", b"garbage\ny\n"), (sub + one + sub, "ei", b"s\n")):
            res.append((a + b"\0", m, si, "dup"))
        # a file, then entries that need its name to be a directory
        f0 = _hdr(b"-lh0-", [(1, n)], data)
        under = [_hdr(b"-lhd-", [(2, n + b"\xff" + s + b"\xff"), P_DIR]),                       # Parent path ... is not a directory!
                 _hdr(b"-lhd-", [(2, n + b"\xff" + s + b"\xff" + s + b"\xff")]),
                 _hdr(b"-lhd-", [(2, n + b"\xff"), (1, s + b"|" + t), P_LINK]),
                 _hdr(b"-lh0-", [(2, n + b"\xff"), (1, s)], data)]                                # Failed to read file type of
        for u in under:
            for m in (("x", "xf", "e", "xq1") if not quick else (rnd.choice(["x", "xf", "e", "xq1"]),)):
                res.append((f0 + u + b"\0", m, b"y\ny\n", "notdir"))
        # a read-only directory that is complete, then a member that needs a new directory inside it
        ro = _hdr(b"-lhd-", [(2, n + b"\xff"), P_DIR_RO]) + _hdr(b"-lh0-", [(1, b"z")], b"A") \
            + rnd.choice([_hdr(b"-lh0-", [(2, n + b"\xff" + s + b"\xff"), (1, b"f")], data),
                          _hdr(b"-lhd-", [(2, n + b"\xff" + s + b"\xff" + s + b"\xff"), P_DIR]),
                          _hdr(b"-lhd-", [(2, n + b"\xff" + s + b"\xff"), (1, b"l|" + t), P_LINK])])
        res.append((ro + b"\0", rnd.choice(["x", "xf", "e"]), b"y\n", "rodir"))
        # a component longer than NAME_MAX: Failed to stat / Failed to read file type of
        long_ = hname(rnd, rnd.choice([256, 300]))
        for u in (_hdr(b"-lhd-", [(2, long_ + b"\xff" + s + b"\xff"), P_DIR]), _hdr(b"-lhd-", [(2, long_ + b"\xff"), (1, s + b"|" + t), P_LINK]),
                  _hdr(b"-lh0-", [(2, long_ + b"\xff"), (1, s)], data), _hdr(b"-lh0-", [(1, long_)], data)):
            res.append((u + b"\0", rnd.choice(["x", "xf", "e", "xq1", "x", "e", "xn", "t", "l", "vv"]), b"y\n", "toolong"))
    # lines longer than 255 bytes (components short enough to exist)
    for _ in range(8 if quick else 100):
        comps = [hname(rnd, rnd.choice([60, 100, 200])) for _ in range(rnd.choice([1, 2, 3]))]
        nm = hname(rnd, rnd.choice([100, 200, 250]))
        tg = hostile(rnd, rnd.choice([100, 300]))
        path = b"".join(c + b"\xff" for c in comps)
        ms = [_hdr(b"-lhd-", [(2, path), P_DIR]), _hdr(b"-lh0-", [(2, path), (1, nm)], b"AAA"),
              _hdr(b"-lhd-", [(2, path), (1, nm[:50] + b"|" + tg), P_LINK]), _hdr(hostile(rnd, 5), [(1, nm)], b"")]
        a = b"".join(ms[:rnd.choice([2, 3, 4])]) + b"\0"
        for m in (rnd.sample(MODES + ["tn", "pn", "en"], 3) if quick else MODES + ["tn", "pn", "en"]):
            res.append((a, m, b"y\n" * 20, "longline"))
    return res


DRY_MODES = ["tn", "pn", "en", "tnq1", "xnq2", "eni", "xnw=o", "tnv"]

CTL = {9: 1, 10: 2, 13: 3}
CTL_TABLE = bytes(CTL.get(i, i) for i in range(256))
CTL_ALPHA = [9, 9, 9, 10, 10, 13, 13, 0x1b, 0x7f, 0x80, 0x41, 0x62, 0x20, 0x2e, 0xe9]      # never 1, 2, 3


def ctl_bytes(rnd, n):
    return bytes(rnd.choice(CTL_ALPHA) for _ in range(n))


def ctl_pair(rnd):
    """(A, A'): the same archive description serialised twice; in A' every TAB / LF / CR of the names, path
    components, link targets, method fields and user / group strings is the control byte 1 / 2 / 3 instead (bytes
    that occur nowhere else in these fields, so the replacement is one-to-one: no two names fall together).  All of them
    are control characters, all must come out as '?': the two outputs must be the same bytes."""
    spec = []
    n = rnd.randrange(1, 5)
    for i in range(n):
        kind = rnd.choice(["file", "file", "dir", "symlink"])
        spec.append({"lv": rnd.randrange(4), "kind": kind,
                     "method": b"-lh0-" if kind == "file" and (i == 0 or rnd.random() < 0.6) else b"-lhd-" if kind != "file" else ctl_bytes(rnd, 5),
                     "name": ctl_bytes(rnd, rnd.choice([1, 3, 12])), "comps": [ctl_bytes(rnd, rnd.choice([1, 4])) for _ in range(rnd.randrange(0, 3))],
                     "target": ctl_bytes(rnd, rnd.choice([1, 5, 20])), "ug": rnd.random() < 0.4, "user": ctl_bytes(rnd, 6), "group": ctl_bytes(rnd, 6),
                     "data": b"A" * rnd.choice([0, 3, 40]), "os": rnd.choice([ord('U'), ord('U'), 0, ord('M'), ord('m')])})

    def build(tr):
        out = b""
        for m in spec:
            x = (lambda b: b.translate(CTL_TABLE)) if tr else (lambda b: b)
            lv, kind = m["lv"], m["kind"]
            data = m["data"] if kind == "file" else b""
            name, comps, target = x(m["name"]), [x(c) for c in m["comps"]], x(m["target"])
            if kind == "dir" and not comps:
                comps = [x(b"d\t")]
            exts, inname, area = [], None, None
            if lv in (0, 1):
                inname = b"".join(c + b"\\" for c in comps) + (b"" if kind == "dir" else name)
                if kind == "symlink":
                    inname += b"|" + target
                if lv == 1:
                    if kind == "symlink":
                        exts.append(P_LINK)
                    if m["ug"]:
                        exts += [(0x52, x(m["group"])), (0x53, x(m["user"]))]
                elif kind == "symlink":
                    area = bytes([ord('U'), 0]) + struct.pack("<I", 1) + struct.pack("<HHH", 0o120777, 1, 2)
            else:
                if comps:
                    exts.append((2, b"".join(c + b"\xff" for c in comps)))
                if kind == "symlink":
                    exts += [P_LINK, (1, name + b"|" + target)]
                elif kind == "file":
                    exts.append((1, name))
                if m["ug"]:
                    exts += [(0x52, x(m["group"])), (0x53, x(m["user"])), (0x51, struct.pack("<HH", 1, 2))]
            out += _hdr(x(m["method"]), exts, data, lv, name=inname, os_=m["os"], area=area)
        return out + b"\0"
    return build(False), build(True)


# ---------------------------------------------------------------- the replacement is '?' (audit round 5)
#
# The byte scan accepts any printable byte in the place of a hostile one, so a sanitiser that writes '_' or ' ' for some
# class of bytes, or drops them, passes it.  The property says they "are replaced by '?'": an archive whose header strings
# hold hostile bytes and the same archive with a literal '?' in the place of each of them must print the same bytes in
# every mode whose output depends on the names only through printing them (list, test, print, the dry runs -- nothing is
# created, so it does not matter that two names may fall together).  Bytes with a meaning for the parser (NUL, '/',
# backslash, '|', 0xFF) are not used inside the strings; nothing else has one ('?' is neither a letter nor a separator).

QM_TABLE = bytes(i if 0x20 <= i < 0x7f else 0x3f for i in range(256))
QM_MODES = ["l", "lv", "v", "vv", "lq2", "vq1", "t", "tq1", "tn", "xn", "en", "pn", "p", "pq", "xnq1", "vvq0"]
QM_STRUCT = b"\0/\\|\xff"
UTF8_SAMPLES = [b"caf\xc3\xa9", b"\xc2\xa0", b"\xdf\xbf", b"\xe3\x81\x82\xe3\x81\x84", b"\xe2\x80\xae", b"\xef\xbb\xbf", b"\xf0\x9f\x98\x80",
                b"na\xc3\xafve \xc3\x9cber", b"\xc2\x9b31m", b"\xd0\x9f\xd1\x80", b"\xc3\xa9\xc3\xa8\xc3\xaa"]


def qm_bytes(rnd, n):
    while True:
        b = bytes(c for c in hostile(rnd, n + 3) if c not in QM_STRUCT)[:n]
        if b and b not in (b".", b".."):
            return b


def qm_spec_random(rnd):
    spec = []
    for i in range(rnd.randrange(1, 5)):
        kind = rnd.choice(["file", "file", "dir", "symlink"])
        spec.append({"lv": rnd.randrange(4), "kind": kind,
                     "method": b"-lh0-" if kind == "file" and (i == 0 or rnd.random() < 0.6) else b"-lhd-" if kind != "file" else b"-l" + qm_bytes(rnd, 3),
                     "name": qm_bytes(rnd, rnd.choice([1, 3, 12, 30])), "comps": [qm_bytes(rnd, rnd.choice([1, 4])) for _ in range(rnd.randrange(0, 3))],
                     "target": qm_bytes(rnd, rnd.choice([1, 5, 20])), "ug": rnd.random() < 0.3, "user": qm_bytes(rnd, 6), "group": qm_bytes(rnd, 6),
                     "data": b"A" * rnd.choice([0, 3, 40]), "os": rnd.choice([ord('U'), ord('U'), 0, ord('M'), ord('m')])})
    return spec


def qm_specs_systematic():
    """every byte value 0x01..0xFE (but the structural ones) in a file name, a path component, a link target and the middle of
    a later member's method field; well-formed UTF-8 sequences of two, three and four bytes"""
    vals = [c for c in range(1, 256) if c not in QM_STRUCT]
    specs = []
    for k in range(0, len(vals), 24):
        chunk = bytes(vals[k:k + 24])
        lv = (k // 24) % 4
        sp = [{"lv": lv, "kind": "file", "method": b"-lh0-", "name": b"n" + chunk, "comps": [], "target": b"", "ug": False, "user": b"", "group": b"",
               "data": b"AAA", "os": ord('U')},
              {"lv": lv, "kind": "dir", "method": b"-lhd-", "name": b"", "comps": [b"c" + chunk[:12], chunk[12:] + b"d"], "target": b"", "ug": False,
               "user": b"", "group": b"", "data": b"", "os": ord('U')},
              {"lv": lv, "kind": "symlink", "method": b"-lhd-", "name": b"s" + chunk[:8], "comps": [], "target": b"t" + chunk, "ug": False, "user": b"",
               "group": b"", "data": b"", "os": ord('U')}]
        for j in range(0, len(chunk), 3):
            sp.append({"lv": lv, "kind": "file", "method": b"-" + (chunk[j:j + 3] + b"xxx")[:3] + b"-", "name": b"m%d" % j, "comps": [], "target": b"",
                       "ug": False, "user": b"", "group": b"", "data": b"", "os": ord('M')})
        specs.append(sp)
    for u in UTF8_SAMPLES:
        specs.append([{"lv": lv, "kind": kind, "method": b"-lh0-" if kind == "file" else b"-lhd-", "name": u, "comps": [u] if kind != "file" else [],
                       "target": u + b"/" + u, "ug": False, "user": b"", "group": b"", "data": b"AA" if kind == "file" else b"", "os": ord('U')}
                      for lv, kind in ((2, "file"), (1, "dir"), (0, "symlink"), (3, "file"))])
    return specs


def spec_archive(spec, tr):
    """the archive of a description (as in ctl_pair); tr: translation table applied to every header string, or None"""
    out = b""
    x = (lambda b: b.translate(tr)) if tr is not None else (lambda b: b)
    for m in spec:
        lv, kind = m["lv"], m["kind"]
        data = m["data"] if kind == "file" else b""
        name, comps, target = x(m["name"]), [x(c) for c in m["comps"]], x(m["target"])
        if kind == "dir" and not comps:
            comps = [x(b"d\x01")]
        exts, inname, area = [], None, None
        if lv in (0, 1):
            inname = b"".join(c + b"\\" for c in comps) + (b"" if kind == "dir" else name)
            if kind == "symlink":
                inname += b"|" + target
            inname = inname[:200]
            if lv == 1:
                if kind == "symlink":
                    exts.append(P_LINK)
                if m["ug"]:
                    exts += [(0x52, x(m["group"])), (0x53, x(m["user"]))]
            elif kind == "symlink":
                area = bytes([ord('U'), 0]) + struct.pack("<I", 1) + struct.pack("<HHH", 0o120777, 1, 2)
        else:
            if comps:
                exts.append((2, b"".join(c + b"\xff" for c in comps)))
            if kind == "symlink":
                exts += [P_LINK, (1, name + b"|" + target)]
            elif kind == "file":
                exts.append((1, name))
            if m["ug"]:
                exts += [(0x52, x(m["group"])), (0x53, x(m["user"])), (0x51, struct.pack("<HH", 1, 2))]
        out += _hdr(x(m["method"]), exts, data, lv, name=inname, os_=m["os"], area=area)
    return out + b"\0"


def qmark_cases(rnd, quick):
    """[(archive, mode, stdin, family, twin)]"""
    res = []
    sysm = qm_specs_systematic()
    for sp in sysm:
        a, a2 = spec_archive(sp, None), spec_archive(sp, QM_TABLE)
        for mode in (rnd.sample(QM_MODES, 3) if quick else QM_MODES):
            res.append((a, mode, b"", "qm", a2))
    for _ in range(30 if quick else 1200):
        sp = qm_spec_random(rnd)
        a, a2 = spec_archive(sp, None), spec_archive(sp, QM_TABLE)
        for mode in rnd.sample(QM_MODES, 2 if quick else 8):
            res.append((a, mode, b"", "qm", a2))
    return res


def run(ctx):
    rnd = random.Random(ctx.seed * 433494437 + 18)
    cb = CBuild(PID)
    scratch = common.scratch_dir("c18")
    viol = []
    dist = collections.Counter()
    try:
        lha = common.build_lha(cb)
        if os.geteuid() == 0:
            os.chown(scratch, 65534, 65534)
        n = 150 if ctx.quick else 4000
        jobs = []
        for i in range(n):
            a = gen_archive(rnd)
            # a hostile method field that happens to spell a real compression method makes 'p' print whatever the
            # printable member data DEcompresses to: that is member data, not header text -- no p modes for such archives
            decodes = any(m in a for m in (b"-lh1-", b"-lh4-", b"-lh5-", b"-lh6-", b"-lh7-", b"-lhx-", b"-lzs-", b"-lz5-", b"-pm1-", b"-pm2-"))
            for mode in (rnd.sample(MODES, 5) if ctx.quick else MODES):
                if decodes and mode.startswith("p"):
                    continue
                jobs.append((len(jobs), a, mode))

        def one(job):
            i, a, mode = job
            d = os.path.join(scratch, "w%d" % i)
            os.makedirs(d, exist_ok=True)
            ap = os.path.join(d, "arc.lzh")
            open(ap, "wb").write(a)
            if os.geteuid() == 0:
                os.chown(d, 65534, 65534)
            rc, out, err = common.run_lha(lha, [mode, "arc.lzh"], cwd=d, as_nobody=True, stdin=b"y\n" * 20, now=1500000000)
            if os.geteuid() == 0:
                common.sh(["chmod", "-R", "u+rwx", d])
            shutil.rmtree(d, ignore_errors=True)
            return job, rc, out, err
        with ThreadPoolExecutor(max_workers=common.NCPU) as ex:
            results = list(ex.map(one, jobs))
        nontriv = 0
        for (i, a, mode), rc, out, err in results:
            dist[mode] += 1
            ab = common.abnormal(rc, err)
            if ab:
                viol.append({"property": PID, "kind": "tool-abnormal-termination", "mode": mode, "archive_hex": a.hex(), "observed": ab,
                             "sig": "crash"})
                continue
            if len(out) > 80:
                nontriv += 1
            for stream, data in (("stdout", out), ("stderr", err)):
                bad = [(k, b) for k, b in enumerate(data) if b not in ALLOWED]
                if bad:
                    k, b = bad[0]
                    viol.append({"property": PID, "kind": "unprintable-byte-in-output", "mode": mode, "stream": stream,
                                 "byte": b, "offset": k, "context": data[max(0, k - 40):k + 20].decode("latin1"),
                                 "archive_hex": a.hex(), "sig": "raw:%s:%s" % (mode[0], _column(data, k))})
                    break
        # ---- directed families (names shared between members, dry runs of t / p, long lines, TAB / CR / LF)
        extra = [(a, m, si, fam_, None) for a, m, si, fam_ in directed_cases(rnd, ctx.quick)]
        for i in range(40 if ctx.quick else 1200):
            a = gen_archive(rnd)
            extra.append((a, rnd.choice(DRY_MODES), b"y\n" * 20, "dry", None))
        for i in range(40 if ctx.quick else 1200):
            a, a2 = ctl_pair(rnd)
            for mode in rnd.sample(MODES + ["tn"], 3 if ctx.quick else 8):
                extra.append((a, mode, b"y\n" * 20, "ctl", a2))

        extra += qmark_cases(rnd, ctx.quick)

        def run_one(k, a, mode, si):
            d = os.path.join(scratch, "x%d" % k)
            os.makedirs(d, exist_ok=True)
            open(os.path.join(d, "arc.lzh"), "wb").write(a)
            os.utime(os.path.join(d, "arc.lzh"), (1400000000, 1400000000))     # (the list footer shows the archive's own mtime)
            if os.geteuid() == 0:
                os.chown(d, 65534, 65534)
            r = common.run_lha(lha, [mode, "arc.lzh"], cwd=d, as_nobody=True, stdin=si, now=1500000000)
            if os.geteuid() == 0:
                common.sh(["chmod", "-R", "u+rwx", d])
            shutil.rmtree(d, ignore_errors=True)
            return r

        def two(job):
            k, (a, mode, si, fam_, twin) = job
            return run_one(2 * k, a, mode, si), (run_one(2 * k + 1, twin, mode, si) if twin is not None else None)
        with ThreadPoolExecutor(max_workers=common.NCPU) as ex:
            xres = list(ex.map(two, enumerate(extra)))
        seen_msg = collections.Counter()
        for (a, mode, si, fam_, twin), ((rc, out, err), tw) in zip(extra, xres):
            dist["%s:%s" % (fam_, mode)] += 1
            ab = common.abnormal(rc, err)
            if ab:
                viol.append({"property": PID, "kind": "tool-abnormal-termination", "mode": mode, "archive_hex": a.hex(), "stdin_hex": si.hex(),
                             "observed": ab, "sig": "crash"})
                continue
            for key in (b"OverWrite ?", b"Skipped...", b"is not a directory!", b"Failed to read file type", b"Failed to create parent",
                        b"Failed to stat", b"VERIFY ", b"EXTRACT "):
                if key in out or key in err:
                    seen_msg[key.decode()] += 1
            if max((len(l) for l in (out + err).split(b"\n")), default=0) > 300:
                seen_msg["line > 300 bytes"] += 1
            if len(out) + len(err) > 80:
                nontriv += 1
            hit = False
            for stream, data in (("stdout", out), ("stderr", err)):
                bad = [(k, b) for k, b in enumerate(data) if b not in ALLOWED]
                if bad:
                    k, b = bad[0]
                    viol.append({"property": PID, "kind": "unprintable-byte-in-output", "mode": mode, "stream": stream, "family": fam_,
                                 "byte": b, "offset": k, "context": data[max(0, k - 40):k + 20].decode("latin1"),
                                 "archive_hex": a.hex(), "stdin_hex": si.hex(), "sig": "raw:%s:%s" % (mode[0], _column(data, k))})
                    hit = True
                    break
            if tw is not None and not hit and not common.abnormal(tw[0], tw[2]):
                seen_msg["twin runs"] += 1
                for stream, d1, d2 in (("stdout", out, tw[1]), ("stderr", err, tw[2])):
                    if d1 != d2:
                        k = next((j for j, (x, y) in enumerate(zip(d1, d2)) if x != y), min(len(d1), len(d2)))
                        viol.append({"property": PID, "kind": "archive-control-character-in-output" if fam_ == "ctl" else "hostile-byte-not-replaced-by-question-mark",
                                     "mode": mode, "stream": stream, "family": fam_,
                                     "what": "the archive's TAB / LF / CR bytes do not come out as '?': the output differs from that of the "
                                             "same archive with the control bytes 1 / 2 / 3 in their place" if fam_ == "ctl" else
                                             "the output differs from that of the same archive with a literal '?' in the place of every byte of "
                                             "its header strings that is not printable ASCII",
                                     "offset": k, "context": d1[max(0, k - 40):k + 20].decode("latin1"),
                                     "twin_context": d2[max(0, k - 40):k + 20].decode("latin1"),
                                     "archive_hex": a.hex(), "twin_hex": twin.hex(), "stdin_hex": si.hex(), "sig": "%s:%s" % (fam_, mode[0])})
                        break
        dist.update({"message: " + k: v for k, v in seen_msg.items()})
        viol.sort(key=lambda v: (v.get("kind") == "tool-abnormal-termination", len(v.get("archive_hex", ""))))
        cov = {"evaluations": len(jobs) + len(extra) + sum(1 for e in extra if e[4] is not None), "distinct_nontrivial": nontriv,
               "rule": "archives of 1-4 members whose names, path components, link targets, user/group strings and method fields "
                       "(first member: only the byte the signature test leaves free; later members: all five bytes) hold bytes "
                       "0x01-0xFF incl. ESC, BEL, CSI, DEL, CR, LF, BS; levels 0-3; files, directories, symlinks; member data is "
                       "printable 'A's; every output byte of the real tool in the modes %s must be in {0x20..0x7E, LF, CR, TAB}. "
                       "non-trivial = run that printed more than 80 bytes.  Directed families: members that agree on a hostile name (the "
                       "same file twice with prompt answers y n s a; a file and then a directory / link / file below its name; a "
                       "read-only directory and a later member that needs a new directory in it; components longer than NAME_MAX) so "
                       "that the prompt, 'Skipped...', 'Parent path ... is not a directory!', 'Failed to read file type of', 'Failed to "
                       "create parent directory' and 'Failed to stat' carry archive bytes; printed strings longer than 255 bytes; the dry "
                       "runs tn pn en; pairs of archives that differ only in TAB/LF/CR versus the control bytes 1/2/3 inside the header "
                       "strings must give the same output (an archive's own TAB, LF, CR must become '?' too)" % " ".join(MODES),
               "distribution": dict(dist), "samples": [jobs[0][1].hex()[:200], jobs[1][2]]}
        return {"violations": viol[:10], "mismatches": [], "coverage": cov,
                "search_note": "direct oracle: byte scan of the tool's stdout and stderr"}
    finally:
        if os.geteuid() == 0:
            common.sh(["chmod", "-R", "u+rwx", scratch])
        shutil.rmtree(scratch, ignore_errors=True)
        cb.close()


def _column(data, k):
    """rough location of an offending byte within its line (stable signature for known findings)"""
    start = data.rfind(b"\n", 0, k) + 1
    return "col%d" % ((k - start) // 10)


def replay(payload):
    cb = CBuild(PID)
    d = common.scratch_dir("c18r")
    try:
        lha = common.build_lha(cb)
        open(os.path.join(d, "arc.lzh"), "wb").write(bytes.fromhex(payload["archive_hex"]))
        os.utime(os.path.join(d, "arc.lzh"), (1400000000, 1400000000))
        si = bytes.fromhex(payload["stdin_hex"]) if "stdin_hex" in payload else b"y\n" * 20
        if os.geteuid() == 0:
            os.chown(d, 65534, 65534)
        rc, out, err = common.run_lha(lha, [payload["mode"], "arc.lzh"], cwd=d, as_nobody=True, stdin=si, now=1500000000)
        bad = [b for b in out + err if b not in ALLOWED]
        print(out[:600]); print(err[:300]); print("unprintable bytes:", bad[:10])
        if payload.get("twin_hex"):
            d2 = os.path.join(d, "twin")
            os.makedirs(d2)
            open(os.path.join(d2, "arc.lzh"), "wb").write(bytes.fromhex(payload["twin_hex"]))
            os.utime(os.path.join(d2, "arc.lzh"), (1400000000, 1400000000))
            if os.geteuid() == 0:
                os.chown(d2, 65534, 65534)
            rc2, out2, err2 = common.run_lha(lha, [payload["mode"], "arc.lzh"], cwd=d2, as_nobody=True, stdin=si, now=1500000000)
            print("twin:", out2[:600], err2[:300])
            bad = bad or ([1] if (out, err) != (out2, err2) else [])
        print("REPRODUCED" if bad else "not reproduced")
        return 1 if bad else 0
    finally:
        if os.geteuid() == 0:
            common.sh(["chmod", "-R", "u+rwx", d])
        shutil.rmtree(d, ignore_errors=True)
        cb.close()

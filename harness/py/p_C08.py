"""C08 -- no archive bytes can make the library or tool touch invalid memory or abort."""
import os, random, hashlib, collections, glob, shutil
from concurrent.futures import ThreadPoolExecutor
import common, lhabuild as lb, hdrgen, seeds
from common import CBuild

PID = "C08"
TRUSTED = ["sanitizer build (clang -fsanitize=address,bounds,null) turns a memory error into an abort/trap",
           "tool runs use setpriv to uid 65534 in a scratch directory"]
ASSUMPTIONS = ["theorems: no Fault site of the model is reachable for any bytes / history -- header parser, input stream, basic reader, "
               "reader layer (reader_history_never_faults), all decoders (C09) and the tool model (lha_main_never_faults, cli_run_never_faults); "
               "a Fault site stands for an out-of-bounds index or a missing-object access of the C at the same place; whether the C "
               "has accesses the model has no site for is what the sanitizer build decides on this run's inputs"]
MODES = [["l"], ["v"], ["lv"], ["vv"], ["t"], ["p"], ["xn"], ["x"], ["xq2f"], ["e"]]
# option/argument forms that reach code the plain modes do not: an extraction directory (w=), member patterns after the
# archive name (src/filter.c).  What follows "--" goes after the archive name.
MODES2 = [["xw=o"], ["eq1w=o/"], ["xfiw=o"], ["l", "--", "*"], ["v", "--", "*.*", "?*"], ["t", "--", "*a*"], ["xq2f", "--", "*"],
          ["p", "--", "[", "*"], ["lq", "--", "*/*"]]


def argv(mode, name="a.lzh"):
    if "--" in mode:
        k = mode.index("--")
        return mode[:k] + [name] + mode[k + 1:]
    return mode + [name]


def directed_archives(ctx, rnd):
    """(bytes, kind): header shapes aimed at the length checks of the parser.
    level0-area -- level-0 headers whose extended area starts like a Unix / OS-9-68k / OS-9 area and has EVERY length from 1
                   to 30 (the area is the end of the header allocation, so a field read beyond it is a heap overflow);
    len-sweep   -- every length field of every level (header length, name length, first extended-header size, level-3 total
                   length) set to each value 0..70 and to values around the true one, the checksum repaired for level 0/1, so that
                   the code behind the checksum sees the inconsistent length."""
    res = []
    for first in (ord('U'), ord('K'), ord('9')):
        for n in range(1, 31):
            for variant in range(2):
                a = bytearray(rnd.randrange(256) for _ in range(n))
                a[0] = first
                if first != ord('9') and n > 1:
                    a[1] = 0
                if first == ord('9'):
                    if n > 9:
                        a[9] = 0xcc
                    if n > 18 and variant:
                        a[17], a[18] = a[1], a[2]
                nm = bytes(rnd.choice(b"abcXYZ") for _ in range(rnd.choice([1, 3, 8])))
                f = {"level": 0, "method": rnd.choice([b"-lh0-", b"-lh5-", b"-lhd-"]), "clen": 2, "length": 2, "crc": 0, "attr": 0x20,
                     "os": 0, "time": 0x21, "name": nm, "area": bytes(a)}
                res.append((lb.build_header(f) + b"ab" + bytes(rnd.choice([0, 1, 30])), "level0-area"))
    for lv in (0, 1, 2, 3):
        for rep in range(2 if ctx.quick else 6):
            nm = bytes(rnd.choice(b"abcXYZ") for _ in range(rnd.choice([1, 4, 9])))
            f = {"level": lv, "method": b"-lh0-", "clen": 3, "length": 3, "crc": lb.crc16(b"abc"), "attr": 0x20, "os": rnd.choice([ord('U'), ord('K'), 0]),
                 "time": 0x21 if lv < 2 else 1000000000}
            if lv < 2:
                f["name"] = nm
            if lv > 0:
                f["exts"] = [(1, nm), (2, b"d\xff"), (0x50, b"\xa4\x81")][:rnd.choice([0, 1, 3]) if lv == 1 else rnd.choice([1, 3])]
            hdr = lb.build_header(f)
            fields = {0: [(0, 1), (21, 1)], 1: [(0, 1), (21, 1), (hdr[0], 2)], 2: [(0, 2), (24, 2)], 3: [(0, 2), (24, 4), (28, 4)]}[lv]
            for (off, w) in fields:
                val = int.from_bytes(hdr[off:off + w], "little")
                for v in sorted(set(list(range(0, 71)) + [val + d for d in range(-4, 5)] + [255, 256, 65535])):
                    if v < 0 or v >= 1 << (8 * w) or v == val:
                        continue
                    h = bytearray(hdr)
                    h[off:off + w] = v.to_bytes(w, "little")
                    tail = b"abc" + bytes(rnd.choice([0, 2, 40]))
                    if lv in (0, 1):
                        full = bytes(h) + tail
                        if len(full) >= 2 + h[0]:
                            h[1] = sum(full[2:2 + h[0]]) & 0xff
                    res.append((bytes(h) + tail, "len-sweep"))
    return res



def mac_name_archives(rnd):
    """members of Mac archives (OS type 'm', stored) whose data starts with a MacBinary header that is valid in every field
    EXCEPT that the name it states differs from the archive header's: longer by 1, 2, 3, 30 bytes or up to the 63 the field
    can hold, shorter, empty, equal up to a NUL.  The library compares the two names; the archive header's name is a heap
    string of its own length, the MacBinary one a length-prefixed field."""
    import test_rdr as T
    res = []
    k = 0
    for fn in (b"m", b"name.txt", b"abcdefghijklmnopqrst"):
        others = [fn + b"x", fn + b"xy", fn + b"\0\0\0", fn + bytes(range(65, 95)), (fn * 63)[:63], (fn * 63)[:62], fn[:-1], b"",
                  fn[:-1] + bytes([fn[-1] ^ 1]) + b"zz"]
        for other in others:
            lv = 1 + k % 3
            k += 1
            dfork = bytes((i * 5 + 1) & 0xff for i in range(rnd.choice([1, 77, 128, 300])))
            body = dfork + bytes(-len(dfork) % 128)
            data = T.macbinary_header(other, len(dfork), 0, T.T_A) + body
            m = T.Member(T.header(lv, b"-lh0-", len(data), len(data), T.crc16(data), fn, T.MAC, None, None, T.T_A), data, "file", True)
            res.append(T.archive([m, T.mac_member(rnd, b"n", "valid", lv)]))
    return res


def archives(ctx, rnd, cb):
    res = []      # (bytes, kind)
    paths = sorted(p for p in glob.glob(os.path.join(common.REPO, "test/archives/*/*")) if os.path.isfile(p))
    n_each = 250 if ctx.quick else 6000
    # 1. unstructured bytes
    for _ in range(n_each // 2):
        n = rnd.choice([0, 1, 21, 22, 23, 40, 100, 600])
        b = bytearray(rnd.randrange(256) for _ in range(n))
        if n > 10 and rnd.random() < 0.7:
            b[2:7] = rnd.choice([b"-lh5-", b"-lh0-", b"-lz5-", b"-pm2-", b"-lhd-", b"-lh1-"])
            if n > 21:
                b[20] = rnd.randrange(4)
        res.append((bytes(b), "unstructured"))
    # 2. mutations of the repository's archives
    small = [p for p in paths if os.path.getsize(p) < 30000]
    for _ in range(n_each):
        d = bytearray(open(rnd.choice(small), "rb").read())
        for _ in range(rnd.choice([1, 1, 2, 5])):
            k = rnd.randrange(5)
            i = rnd.randrange(len(d)) if d else 0
            if not d:
                break
            if k == 0:
                d[i] ^= 1 << rnd.randrange(8)
            elif k == 1:
                d[i] = rnd.choice([0, 0xff, rnd.randrange(256)])
            elif k == 2:
                del d[i:i + rnd.choice([1, 2, 7, 100])]
            elif k == 3:
                d[i:i] = bytes(rnd.randrange(256) for _ in range(rnd.choice([1, 3, 20])))
            else:
                d = d[:i]
        res.append((bytes(d), "mutated"))
    # 3. structurally generated archives with inconsistent length fields
    for _ in range(n_each):
        members = []
        for _ in range(rnd.choice([1, 1, 2, 4])):
            f = hdrgen.rfields(rnd, hostile=True)
            hdr, data = hdrgen.member(f)
            hdr = bytearray(hdr)
            lv = f["level"]
            fields = {0: [(0, 1), (7, 4), (21, 1)], 1: [(0, 1), (7, 4), (21, 1)], 2: [(0, 2), (7, 4), (24, 2)],
                      3: [(0, 2), (7, 4), (24, 4), (28, 4)]}[lv]
            if rnd.random() < 0.7:
                off, w = rnd.choice(fields)
                val = int.from_bytes(hdr[off:off + w], "little")
                nv = rnd.choice([0, 1, val - 1, val + 1, val + 2, (1 << (8 * w)) - 1, val * 2, 1 << 20, (1 << 20) + 1]) % (1 << (8 * w))
                hdr[off:off + w] = nv.to_bytes(w, "little")
                if lv in (0, 1) and rnd.random() < 0.8:
                    hl = hdr[0]
                    hdr[1] = sum(hdr[2:2 + hl]) & 0xff
            members.append(bytes(hdr) + data)
        res.append((b"".join(members) + b"\0", "generated"))
    # 4. extended-header chains with a length field at a boundary: every small value (0 .. field size + 3) and the
    #    exact/one-off remaining size, at every link of the chain, followed by every known header type
    types = [0x00, 0x01, 0x02, 0x40, 0x41, 0x42, 0x50, 0x51, 0x52, 0x53, 0x54, 0xcc, 0x7f, 0xff]
    for lv in (1, 2, 3):
        for _ in range(2 if ctx.quick else 12):
            f = {"level": lv, "method": b"-lh0-", "clen": 3, "length": 3, "crc": lb.crc16(b"abc"), "attr": 0x20, "os": ord('U'),
                 "time": 0x21 if lv == 1 else 1000000000,
                 "exts": [(1, b"name"), (2, b"d\xff"), (0x50, b"\xa4\x81")][:rnd.choice([1, 2, 3])]}
            if lv == 1:
                f["name"] = b""
            hdr = lb.build_header(f)
            fs = 4 if lv == 3 else 2
            p = {1: hdr[0], 2: 24, 3: 28}[lv]
            links = []
            while p + fs <= len(hdr):
                ln = int.from_bytes(hdr[p:p + fs], "little")
                links.append(p)
                if ln == 0 or ln < fs:
                    break
                p += ln
            for p in links:
                rest = len(hdr) - p - fs
                for v in sorted(set(list(range(0, fs + 4)) + [rest - 1, rest, rest + 1, rest + fs])):
                    if v < 0 or v >= 1 << (8 * fs):
                        continue
                    for t in (types if v <= fs + 1 else types[:3]):
                        h = bytearray(hdr)
                        h[p:p + fs] = v.to_bytes(fs, "little")
                        if p + fs < len(h):
                            h[p + fs] = t
                        else:
                            h.append(t)
                        if lv == 1:
                            h[1] = sum(h[2:2 + h[0]]) & 0xff
                        res.append((bytes(h) + b"abc" + bytes(rnd.choice([0, 3, 40])), "ext-boundary"))
    # 5. archives as the reader test generates them: nested directories, safe and dangerous links, members of Mac archives
    #    (with a MacBinary header, without, and with data that ends before the 128-byte header), wrong CRC / length /
    #    method, truncations
    try:
        import test_rdr as T
        drv = cb.compile("drv_rdr", [os.path.join(common.CDIR, "drv_rdr.c")] + cb.lib_sources(), extra=["-I" + common.CDIR], sanitize=True)
        pool = T.Pool(cb, [drv], rnd)
        for _ in range(n_each // 2):
            a, ms = T.random_archive(pool, rnd) if rnd.random() < 0.7 else T.tree_archive(pool, rnd)
            res.append((a, "reader-shaped"))
        for v in ("short", "short", "valid", "plainfile", "tiny", "badcrc"):
            for lv in (1, 2, 3):
                res.append((T.archive([T.mac_member(rnd, b"m", v, lv), T.mac_member(rnd, b"n", "valid", lv)]), "reader-shaped"))
    except Exception as e:
        ctx.notes.append("reader-shaped archives not generated: %r" % (e,))
    return res


def run(ctx):
    rnd = random.Random(ctx.seed * 15487469 + 8)
    cb = CBuild(PID)
    viol, mism = [], []
    dist = collections.Counter()
    scratch = common.scratch_dir("c08")
    try:
        hexe = cb.compile("drv_hdr", [os.path.join(common.CDIR, "drv_hdr.c")] + cb.lib_sources())
        lha = common.build_lha(cb)
        arcs = archives(ctx, rnd, cb)
        n_random = len(arcs)
        arcs += directed_archives(ctx, random.Random(ctx.seed * 32452843 + 88))
        # (a) library: header iteration through the four stream kinds, model vs C
        lines = []
        for a, kind in arcs:
            lines.append("hdr %s %s" % (rnd.choice(["file", "pipe", "cbskip", "cbnoskip"]), a.hex() if a else "-"))
            dist["lib:" + kind] += 1
        # every skip distance 0 .. 100 and around 128 / 160 / 256 through the two read-and-discard skips (pipe: 32-byte buffer on
        # the stack of file_source_skip_fallback; callbacks without skip: the one of lha_input_stream_skip)
        for k_ in list(range(0, 101)) + [127, 128, 129, 130, 159, 160, 161, 162, 255, 256, 257, 258]:
            ms_ = b""
            for nm_, n_ in ((b"a", 3), (b"mid", k_), (b"z", 2)):
                ms_ += lb.build_header({"level": 1 + k_ % 2, "method": b"-lh0-", "clen": n_, "length": n_, "crc": 0, "attr": 0x20, "os": ord('U'),
                                        "time": 0x21 if k_ % 2 == 0 else 1000000000, "name": nm_, "exts": [(1, nm_)]}) + bytes((3 * i_ + k_) & 0xff for i_ in range(n_))
            for kind_ in ("pipe", "cbnoskip"):
                lines.append("hdrs %s %s" % (kind_, (ms_ + b"\0").hex()))
                dist["lib:skip-sizes"] += 1
        co = common.run_lines_parallel([hexe], lines)
        mo = common.run_lines_parallel([ctx.model], lines)
        nontriv = 0
        for ln, c, m in zip(lines, co, mo):
            if not (c.startswith("H ") or c.startswith("E ")):
                viol.append({"property": PID, "kind": "library-memory-error", "case": ln[:100000], "observed": c[:400],
                             "sig": "libcrash:" + c.split("@")[-1][:60]})
                continue
            if c.startswith("H "):
                nontriv += 1
            if c != m:
                mism.append({"case": ln[:3000], "c": c[:500], "model": m[:500]})
        # (a2) the same lines through an UNoptimised gcc build of the driver without instrumentation: the sanitizer build is
        #      compiled with optimisation, and an optimiser may delete code whose behaviour is undefined instead of running
        #      it (a call through a NULL skip callback vanished from the clang -O1 build); at -O0 it is executed and the driver
        #      dies.  Only a dead driver counts here (no time-outs), nothing is compared
        try:
            hexe0 = cb.compile("drv_hdr_O0", [os.path.join(common.CDIR, "drv_hdr.c")] + cb.lib_sources(), extra=["-O0"], sanitize=False, cc="gcc")
            co0 = common.run_lines_parallel([hexe0], lines)
            for ln, c0 in zip(lines, co0):
                dist["lib-O0"] += 1
                if c0.startswith("CRASH"):
                    viol.append({"property": PID, "kind": "library-crash-unoptimised-build", "case": ln[:100000], "observed": c0[:300],
                                 "build": "gcc -O0, no sanitizer", "sig": "libcrash-O0:" + c0.split()[1][:20]})
        except common.Broken as e:
            ctx.notes.append("gcc -O0 driver not built: %s" % str(e)[:200])
        # (b) the tool, every mode
        os.chown(scratch, 65534, 65534) if os.geteuid() == 0 else None
        jobs = []
        for i, (a, kind) in enumerate(arcs):
            if i >= n_random:
                # directed header shapes: the library run above is the main oracle; a sample goes through the tool
                if i % (9 if ctx.quick else 2) == 0:
                    jobs.append((i, a, kind, rnd.choice([["v"], ["t"], ["x"], ["l"]])))
                continue
            if ctx.quick and i % 3 != ctx.seed % 3:
                continue
            jobs.append((i, a, kind, rnd.choice(MODES)))
        # 6. members whose compressed data is aimed at the decoders' table readers (count fields at their extremes, unary
        #    runs, the single-code forms with the largest raw code values: p_C09.table_headers), declared long enough for the
        #    decode to run to the end of the data; decoded by the tool (t / p / x): an overrun of a decoder's output buffer
        #    or tables is a heap error of the TOOL, whatever the decoder theorems say about the model
        import p_C09
        rnd6 = random.Random(ctx.seed * 67867979 + 8)
        k6 = len(arcs) + 100000
        for meth in ("-lh4-", "-lh5-", "-lh6-", "-lh7-", "-lhx-", "-lk7-", "-pm2-", "-pm1-", "-lh1-"):
            streams = p_C09.table_headers(rnd6, meth)
            if ctx.quick and len(streams) > 37:
                streams = rnd6.sample(streams[:-27], 10) + streams[-27:]
            for st in streams:
                f = {"level": 1, "method": b"-lh7-" if meth == "-lk7-" else meth.encode(), "clen": len(st), "length": 66000,
                     "crc": 0, "attr": 0x20, "os": 0x20 if meth == "-lk7-" else ord("U"), "time": 0x21, "name": b"m", "exts": []}
                a = lb.build_header(f) + st + b"\0"
                jobs.append((k6, a, "decoder-aimed", rnd6.choice([["t"], ["t"], ["p"], ["xq2f"]]))); k6 += 1
                dist["decoder-aimed:" + meth] += 1
        # 7. entries typed as symbolic links (Unix mode 012xxxx on -lhd-) whose name holds no '|', one '|' at either end, or
        #    only a path; alone and followed by members with and without a path; extracted for real (the reader's directory
        #    stack and deferred-link list take such headers as they come)
        import struct
        for lv in (1, 2, 3):
            for exts in ([(1, b"newdir")], [(1, b"newdir|")], [(1, b"|t")], [(2, b"p\xff")], [(2, b"p\xffq|r\xff")], [(1, b"n"), (2, b"d\xff")],
                         [(1, b"|")], []):
                f = {"level": lv, "method": b"-lhd-", "clen": 0, "length": 0, "crc": 0, "attr": 0x20, "os": ord("U"),
                     "time": 0x21 if lv == 1 else 1000000000, "exts": list(exts) + [(0x50, struct.pack("<H", 0o120777))]}
                if lv == 1:
                    f["name"] = b""
                g = {"level": 2, "method": b"-lh0-", "clen": 3, "length": 3, "crc": lb.crc16(b"abc"), "attr": 0x20, "os": ord("U"),
                     "time": 1000000000, "exts": [(1, b"f"), (2, b"sub\xff"), (0x50, struct.pack("<H", 0o100644))]}
                try:
                    a1 = lb.build_header(f)
                except Exception:
                    continue
                for tail in (b"", lb.build_header(g) + b"abc"):
                    for mode in (["x"], ["xq2f"], ["e"], ["t"], ["v"]):
                        jobs.append((k6, a1 + tail + b"\0", "linktyped", mode)); k6 += 1
                        dist["linktyped"] += 1
        # 8. Mac members whose MacBinary header states another name than the archive header (decoded by the tool: t / xq2f / p)
        try:
            for j_, a in enumerate(mac_name_archives(random.Random(ctx.seed * 86028157 + 8))):
                for mode in (["t"], [["xq2f"], ["p"], ["xq2f"]][j_ % 3]):
                    jobs.append((k6, a, "mac-name", mode)); k6 += 1
                    dist["mac-name"] += 1
        except Exception as e:
            ctx.notes.append("mac-name archives not generated: %r" % (e,))
        # the extra option/argument forms, on intact repository archives (so that members are really matched and extracted)
        # and on a few damaged ones
        rnd2 = random.Random(ctx.seed * 49979687 + 8)
        good = sorted(p for p in glob.glob(os.path.join(common.REPO, "test/archives/*/*")) if os.path.isfile(p) and os.path.getsize(p) < 20000)
        k = len(arcs)
        for mode in MODES2 * (1 if ctx.quick else 6):
            for _ in range(3):
                a = open(rnd2.choice(good), "rb").read()
                jobs.append((k, a, "intact", mode)); k += 1
            a, kind = arcs[rnd2.randrange(n_random)]
            jobs.append((k, a, kind, mode)); k += 1

        def one(job):
            i, a, kind, mode = job
            d = os.path.join(scratch, "w%d" % i)
            os.makedirs(d, exist_ok=True)
            ap = os.path.join(d, "a.lzh")
            with open(ap, "wb") as f:
                f.write(a)
            if os.geteuid() == 0:
                os.chown(d, 65534, 65534)
                os.chown(ap, 65534, 65534)
            rc, out, err = common.run_lha(lha, argv(mode), cwd=d, as_nobody=True, stdin=b"y\n" * 50, timeout=120)
            if os.geteuid() == 0:
                common.sh(["chmod", "-R", "u+rwx", d])
            shutil.rmtree(d, ignore_errors=True)
            return job, common.abnormal(rc, err), rc
        with ThreadPoolExecutor(max_workers=common.NCPU) as ex:
            results = list(ex.map(one, jobs))
        for (i, a, kind, mode), ab, rc in results:
            dist["tool:" + " ".join(mode)] += 1
            if ab:
                viol.append({"property": PID, "kind": "tool-abnormal-termination", "mode": mode, "archive_hex": a.hex()[:200000],
                             "observed": ab, "exit": rc, "sig": "toolcrash:" + ab[:60],
                             "how_to_replay": "write archive_hex to a.lzh; lha %s (sanitizer build)" % " ".join(argv(mode))})
        cov = {"evaluations": len(lines) + len(jobs), "distinct_nontrivial": nontriv + len(jobs),
               "rule": "five archive streams (unstructured bytes with plausible signatures; mutations of the repository's archives: "
                       "bit flips, overwrites, deletions, insertions, truncations; generated multi-member archives with one length field "
                       "set to 0, min-1, +-1, max, 1 MiB(+1); level 1-3 extended-header chains with the length field of every link set to 0 .. field size + 3 and to the remaining size -1/0/+1/+field size, followed by each known header type; archives of the reader test's generators: directories, links, Mac members incl. ones whose data ends before the MacBinary header, damaged members), each (a) iterated through the library with the four stream kinds and "
                       "compared with the model (and run through a gcc -O0 build without instrumentation, where only a dead driver counts), (b) given to the sanitizer build of the tool in one of the modes l v lv vv t p xn x "
                       "xq2f e as uid 65534 in a scratch directory; plus (directed_archives) level-0 extended areas of every length 1..30 starting like a Unix / "
                       "OS-9 area and every length field of every level set to 0..70 and around its value with the checksum repaired (library, a "
                       "sample through the tool), every skip distance 0..100 and around 128/160/256 through the pipe and no-skip-callback kinds, and (MODES2) w=DIR extraction and member patterns after the archive name on intact and "
                       "damaged archives. plus Mac members whose MacBinary header is valid except for a name that differs from the archive header's (longer by 1..62 bytes, shorter, empty). plus members aimed at the decoders' table readers (single-code forms with the largest raw values, count fields at their extremes) decoded by the tool, and entries typed as symbolic links with no / a misplaced '|' extracted by the tool. non-trivial = archive that yields at least one header / a tool run",
               "distribution": dict(dist), "samples": [lines[0][:160], lines[len(lines) // 2][:160], lines[-1][:160]]}
        return {"violations": viol[:10], "mismatches": mism[:10], "coverage": cov,
                "search_note": "direct oracle: sanitizer reports / abnormal exits of the library driver and of the tool"}
    finally:
        if os.geteuid() == 0:
            common.sh(["chmod", "-R", "u+rwx", scratch])
        shutil.rmtree(scratch, ignore_errors=True)
        cb.close()


def replay(payload):
    cb = CBuild(PID)
    try:
        if payload.get("kind") == "tool-abnormal-termination":
            lha = common.build_lha(cb)
            d = common.scratch_dir("c08r")
            open(os.path.join(d, "a.lzh"), "wb").write(bytes.fromhex(payload["archive_hex"]))
            rc, out, err = common.run_lha(lha, argv(payload["mode"]), cwd=d, stdin=b"y\n" * 50)
            shutil.rmtree(d, ignore_errors=True)
            ab = common.abnormal(rc, err)
            print("exit", rc, "abnormal:", ab)
            print("REPRODUCED" if ab else "not reproduced")
            return 1 if ab else 0
        if payload.get("kind") == "library-crash-unoptimised-build":
            hexe = cb.compile("drv_hdr_O0", [os.path.join(common.CDIR, "drv_hdr.c")] + cb.lib_sources(), extra=["-O0"], sanitize=False, cc="gcc")
        else:
            hexe = cb.compile("drv_hdr", [os.path.join(common.CDIR, "drv_hdr.c")] + cb.lib_sources())
        out = common.run_lines_parallel([hexe], [payload["case"]])
        print("observed:", out[0][:400])
        bad = not (out[0].startswith("H ") or out[0].startswith("E "))
        print("REPRODUCED" if bad else "not reproduced")
        return 1 if bad else 0
    finally:
        cb.close()

"""Seed streams harvested from the repository's test archives (only used to
seed generators; every run re-harvests from /repo)."""
import os, glob, subprocess
import common

_cache = {}


def harvest(cb, max_len=200000):
    """Returns list of dicts {method, data(bytes), length, crc, path} from /repo/test/archives."""
    if "m" in _cache:
        return _cache["m"]
    exe = cb.compile("drv_members", [os.path.join(common.CDIR, "drv_members.c")] + cb.lib_sources(), sanitize=False, cc="cc")
    paths = sorted(p for p in glob.glob(os.path.join(common.REPO, "test/archives/*/*")) if os.path.isfile(p))
    p = subprocess.run([exe], input=("\n".join(paths) + "\n").encode(), stdout=subprocess.PIPE, stderr=subprocess.DEVNULL, timeout=300)
    res = []
    for line in p.stdout.decode(errors="replace").splitlines():
        if line.startswith("M "):
            parts = line.split(" ")
            if len(parts) != 7:
                continue
            _, path, idx, meth, ln, crc, hx = parts
            data = b"" if hx == "-" else bytes.fromhex(hx)
            if len(data) <= max_len:
                res.append({"method": meth, "data": data, "length": int(ln), "crc": int(crc), "path": path, "index": int(idx)})
    _cache["m"] = res
    return res

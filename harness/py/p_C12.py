"""C12 -- headers failing their own checksum, CRC or length rules are never returned."""
import os, random, collections
import common, lhabuild as lb, hdrgen
from common import CBuild

PID = "C12"
TRUSTED = ["C driver harness/c/drv_hdr.c", "independent integrity predicate lhabuild.intact"]
ASSUMPTIONS = []


def build(cb):
    return cb.compile("drv_hdr", [os.path.join(common.CDIR, "drv_hdr.c")] + cb.lib_sources())


def ccrc_offsets(f, hdr):
    """offsets (in the header bytes) of the value field of every common-CRC extended header"""
    lv = f["level"]
    if lv == 0:
        return []
    fs = 4 if lv == 3 else 2
    off = {1: 2 + hdr[0], 2: 26, 3: 32}[lv]
    res = []
    for (t, p) in f.get("exts", []):
        if t == 0 and len(p) >= 2:
            res.append(off + 1)
        off += 1 + len(p) + fs
    return res


def repair_checksum(b):
    """level 0/1: make the checksum byte fit the (possibly changed) length byte, when the bytes are there"""
    b = bytearray(b)
    if len(b) >= 2 + b[0]:
        b[1] = sum(b[2:2 + b[0]]) & 0xff
    return bytes(b)


def extra_cases(ctx, rnd, bases):
    """(bytes, kind) beyond single substitutions:
    ccrc      -- both bytes of the stored common CRC replaced at once (0000, ffff, swapped, one bit) -- a header with a common
                 CRC that does not match must be rejected whatever the stored value looks like;
    repaired  -- level 0/1: a length byte, the name-length byte, a compressed-size byte or the level byte changed AND the
                 checksum byte recomputed, so that the rules behind the checksum (minimum length per level, name inside the
                 header, extended headers inside the compressed size, level dispatch) are reached;
    twomember -- a header that breaks a rule, with no data, directly followed by a valid member: the iteration must END there
                 (no header now, none on the next request either)."""
    out = []
    simple = []
    for lv in (0, 1, 2, 3):
        for k in range(2 if ctx.quick else 6):
            f = {"level": lv, "method": rnd.choice([b"-lh0-", b"-lh5-", b"-lhd-"]), "clen": 0, "length": rnd.randrange(1000), "crc": rnd.getrandbits(16),
                 "attr": 0x20, "os": rnd.choice([0, ord('U'), ord('M'), ord('K')]), "time": 0x21 if lv < 2 else 1000000000 + k}
            nm = bytes(rnd.choice(b"abcXYZ_") for _ in range(rnd.randrange(1, 9)))
            if lv in (0, 1):
                f["name"] = (b"d\\" if f["method"] == b"-lhd-" else b"") + nm
            if lv > 0:
                f["exts"] = ([] if lv == 1 and k % 2 else [(1, nm), (2, b"dir\xff")]) + ([(0x54, b"\1\2\3\4")] if k % 2 else []) + [(0, b"\0\0")]
                rnd.shuffle(f["exts"])
            if lb.normalise(f) is None:
                continue
            hdr, data = hdrgen.member(f)
            simple.append((f, hdr, data))
    for (f, hdr, data) in list(bases) + simple:
        arch = hdr + data + b"\0"
        for o in ccrc_offsets(f, hdr):
            c = hdr[o] | (hdr[o + 1] << 8)
            for v in {0, 0xffff, ((c & 0xff) << 8) | (c >> 8), c ^ 0x8000, c ^ 1, (c + 1) & 0xffff, c & 0xff, c & 0xff00}:
                if v != c:
                    out.append((arch[:o] + bytes([v & 0xff, v >> 8]) + arch[o + 2:], "ccrc"))
        if f["level"] in (0, 1):
            poss = [0, 21, 20] + ([7, 8] if f["level"] == 1 else [])
            for pos in poss:
                vals = range(256) if pos != 20 else range(0, 6)
                for v in vals:
                    if v != hdr[pos]:
                        out.append((repair_checksum(arch[:pos] + bytes([v]) + arch[pos + 1:]), "repaired"))
    # two members: a broken header without data, then a valid member
    valid2 = [h + d for (f, h, d) in simple]
    for (f, hdr, data) in simple:
        if f["clen"] != 0:
            continue
        broken = []
        if f["level"] in (0, 1):
            broken.append(hdr[:1] + bytes([hdr[1] ^ 0x10]) + hdr[2:])                # checksum
        for o in ccrc_offsets(f, hdr):
            broken.append(hdr[:o] + bytes([hdr[o] ^ 0x40]) + hdr[o + 1:])           # common CRC
        broken.append(hdr[:20] + bytes([4 + rnd.randrange(250)]) + hdr[21:])         # level above 3
        if f["level"] >= 2 and not ccrc_offsets(f, hdr):
            pass
        for b in broken:
            out.append((b + rnd.choice(valid2) + b"\0", "twomember"))
    return out


def directed_bases(ctx, rnd):
    """small headers that get the full treatment (every substitution, truncation, length perturbation) -- audit round 2:
    level-2 headers from OS-9/68k (the length field is two bytes short: the header ends two bytes after it), with and without a
    common CRC; zero-length -lh0- entries with name and path under Amiga and non-Amiga OS types at levels 0, 1, 2 (the Amiga
    directory rule: a substitution that removes the name must make the header a directory for Amiga only); a symlink; a
    level-3 header."""
    import struct
    res = []
    for (lv, m, o, ln, exts, name) in [
            (2, b"-lh5-", ord('K'), 7, [(1, b"n"), (2, b"d\xff"), (0, b"\0\0")], None),
            (2, b"-lh5-", ord('K'), 7, [(1, b"nm")], None),
            (2, b"-lh0-", ord('M'), 0, [(2, b"d\xff"), (1, b"n")], None),
            (2, b"-lh0-", ord('A'), 0, [(2, b"d\xff"), (1, b"n"), (0, b"\0\0")], None),
            (1, b"-lh0-", ord('U'), 0, [(2, b"d\xff")], b"n"),
            (1, b"-lh0-", ord('A'), 0, [(2, b"d\xff")], b"n"),
            (0, b"-lh0-", 0, 0, None, b"d\\n"),
            # the Amiga directory itself: -lh0-, no name, a path, both lengths zero; any substitution that makes one of the
            # lengths non-zero turns it into a file entry without a name
            (2, b"-lh0-", ord('A'), 0, [(2, b"Dir\xff")], None),
            (1, b"-lh0-", ord('A'), 0, [(2, b"Dir\xff")], b""),
            (3, b"-lh0-", ord('A'), 0, [(2, b"Dir\xff"), (0, b"\0\0")], None),
            (2, b"-lhd-", ord('U'), 0, [(0x50, struct.pack("<H", 0o120777)), (1, b"l|t")], None),
            (3, b"-lh0-", ord('M'), 0, [(1, b"n"), (2, b"d\xff"), (0, b"\0\0")], None)]:
        f = {"level": lv, "method": m, "clen": 0, "length": ln, "crc": rnd.getrandbits(16), "attr": 0x20, "os": o,
             "time": 0x21 if lv < 2 else 1000000007}
        if exts is not None:
            f["exts"] = exts
        if name is not None:
            f["name"] = name
        if lb.normalise(f) is None:
            raise common.Broken("directed base is rejected by the reference")
        hdr, data = hdrgen.member(f)
        res.append((f, hdr, data))
    return res


def limit_cases(ctx, rnd):
    """level-3 headers around the 1 MiB limit: (bytes, kind).  Well-formed headers (name, path, one large unknown header, common
    CRC) whose total length is 1 MiB + k; all of the header is present in the input.  The independent predicate accepts
    length <= 1 MiB only."""
    out = []
    for k in ([1, 32, 33, 4096] if ctx.quick else [1, 2, 31, 32, 33, 34, 1024, 4096, 65536]):
        total = 1048576 + k
        e = [(1, b"big.bin"), (2, b"top\xff"), (0, b"\0\0")]
        used = 32 + sum(1 + len(p_) + 4 for _, p_ in e)
        fill = total - used - 5
        blob = bytes(rnd.randrange(256) for _ in range(4096))
        e.insert(2, (0x7d, (blob * (fill // 4096 + 1))[:fill]))
        f = {"level": 3, "method": b"-lh5-", "clen": 0, "length": 40, "crc": 7, "attr": 0x20, "os": ord('U'), "time": 1700000000, "exts": e}
        hdr = lb.build_header(f)
        assert len(hdr) == total
        out.append((hdr + b"\0", "l3-over-limit"))
    return out


def run(ctx):
    rnd = random.Random(ctx.seed * 9576890767 + 12)
    cb = CBuild(PID)
    viol, mism = [], []
    dist = collections.Counter()
    try:
        cexe = build(cb)
        nh = 24 if ctx.quick else 240
        cases = []          # (bytes, kind)
        bases = []
        tries = 0
        while len(bases) < nh and tries < 100000:
            tries += 1
            f = hdrgen.rfields(rnd, lv=len(bases) % 4)
            if "exts" in f and rnd.random() < 0.6 and f["level"] > 0:
                f["exts"] = f["exts"] + [(0, b"\0\0")]
            if lb.normalise(f) is None:
                continue
            hdr, data = hdrgen.member(f)
            if len(hdr) > (120 if ctx.quick else 200):
                continue
            bases.append((f, hdr, data))
        nrandom_bases = len(bases)
        bases += directed_bases(ctx, random.Random(ctx.seed * 104729 + 12012))
        dist["directed_bases"] = len(bases) - nrandom_bases
        for (f, hdr, data) in bases:
            arch = hdr + data + b"\0"
            cases.append((arch, "valid"))
            for pos in range(len(hdr)):
                for v in range(256):
                    if v != hdr[pos]:
                        cases.append((arch[:pos] + bytes([v]) + arch[pos + 1:], "subst"))
            for cut in range(len(arch)):
                cases.append((arch[:cut], "trunc"))
            # length-field perturbations
            fields = {0: [(0, 1)], 1: [(0, 1), (7, 4)], 2: [(0, 2), (24, 2)], 3: [(0, 2), (24, 4), (28, 4)]}[f["level"]]
            for (off, w) in fields:
                val = int.from_bytes(hdr[off:off + w], "little")
                for d in (1, -1, 2, -2, 256, -256, 65536):
                    nv = (val + d) % (1 << (8 * w))
                    cases.append((arch[:off] + nv.to_bytes(w, "little") + arch[off + w:], "lenfield"))
        # headers longer than 64 KiB (level 3: one large unknown extended header; level 1: two) with a common CRC, built so
        # that the CRC state after len mod 2^16 bytes equals the final one (any check that folds only part of the
        # header then still accepts the stored value): substitutions in both parts, the CRC field, the last bytes
        nbig = 0
        for lv in ([3, 1] if ctx.quick else [3, 1, 3, 3, 1, 2]):
            if lv == 2:
                continue        # a level-2 header cannot exceed 64 KiB (16-bit total length)
            f = hdrgen.rfields(rnd, lv=lv)
            f["clen"] = 0
            if lv == 1:
                f["name"] = b"big"
            big = [bytes(rnd.randrange(256) for _ in range(n)) for n in
                   ([rnd.randrange(65600, 70000)] if lv == 3 else [rnd.randrange(30000, 33000), rnd.randrange(36000, 40000)])]
            mk = lambda last2: dict(f, exts=[(0, b"\0\0")] + [(0x99, b) for b in big[:-1]] + [(0x99, big[-1][:-2] + last2)])
            if lb.normalise(mk(b"\0\0")) is None:
                continue
            z = lb.build_header(mk(b"\0\0"), fix_common_crc=False)
            fs = 4 if lv == 3 else 2
            k = len(z) % 65536
            if len(z) <= 65536 or k < 40:
                continue
            target = lb.crc16(z[:k])
            s0 = lb.crc16(z[:len(z) - fs - 2])
            last2 = None
            for v in range(65536):
                if lb.crc16(bytes([v & 255, v >> 8]) + bytes(fs), s0) == target:
                    last2 = bytes([v & 255, v >> 8])
                    break
            if last2 is None:
                continue
            hdr = lb.build_header(mk(last2))
            arch = hdr + b"\0"
            if not lb.intact(arch):
                raise common.Broken("generated >64 KiB header is not intact by the independent predicate")
            nbig += 1
            cases.append((arch, "big-valid"))
            poss = [rnd.randrange(k, len(hdr)) for _ in range(40 if ctx.quick else 150)] + \
                   [rnd.randrange(0, k) for _ in range(15 if ctx.quick else 60)] + \
                   [len(hdr) - 1 - i for i in range(8)] + [k - 1, k, k + 1, 65535, 65536, 65537]
            for pos in poss:
                v = rnd.choice([hdr[pos] ^ 1, hdr[pos] ^ 0x80, (hdr[pos] + 1) & 255, rnd.randrange(256)])
                if v != hdr[pos]:
                    cases.append((arch[:pos] + bytes([v]) + arch[pos + 1:], "big-subst"))
            for cut in (len(hdr) - 1, 65536, 65535, k, len(hdr) // 2):
                cases.append((arch[:cut], "big-trunc"))
        dist["big_headers"] = nbig
        cases += extra_cases(ctx, random.Random(ctx.seed * 7907 + 1212), bases)
        cases += limit_cases(ctx, random.Random(ctx.seed * 1299709 + 121212))
        lines = ["hdr %s %s" % (rnd.choice(["file", "cbskip", "cbnoskip", "pipe"]) if k not in ("subst", "repaired", "ccrc") else "cbskip",
                                a.hex() if a else "-") for a, k in cases]
        co = common.run_lines_parallel([cexe], lines)
        mo = common.run_lines_parallel([ctx.model], lines)
        nontriv = 0
        for (a, k), ln, c, m in zip(cases, lines, co, mo):
            ok = lb.intact(a)
            returned = c.startswith("H ")
            dist[k + (":intact" if ok else ":broken")] += 1
            if not (c.startswith("H ") or c.startswith("E ")):
                viol.append({"property": PID, "kind": "abnormal", "case": ln, "observed": c[:300], "sig": "crash"})
                continue
            if not ok:
                nontriv += 1
                if returned:
                    viol.append({"property": PID, "kind": "non-intact-header-returned", "case": ln, "mutation": k,
                                 "observed": c[:600], "sig": "returned:" + k})
                    continue
                if " again=1" in c:
                    viol.append({"property": PID, "kind": "iteration-continues-after-broken-header", "case": ln, "mutation": k,
                                 "observed": c[:600], "sig": "again:" + k})
                    continue
            if c != m:
                mism.append({"case": ln[:3000], "c": c[:600], "model": m[:600]})
        cov = {"evaluations": len(cases), "distinct_nontrivial": nontriv,
               "rule": "%d generated headers (all levels, with and without a common-CRC header): all 255 substitutions at every "
                       "byte position (exhaustive), every truncation, +-1/+-2/+-256/+65536 on each length field; headers longer than 64 KiB (level 3 and level 1, common CRC, CRC state "
                       "after len mod 2^16 bytes = final state) with substitutions before and after that point and truncations; a case is "
                       "non-trivial when the independent predicate says the mutated header is NOT intact (then the library must "
                       "not return it); plus (extra_cases) both bytes of the stored common CRC replaced (0000, ffff, swapped, one bit), level-0/1 "
                       "length / name-length / size / level bytes changed with the checksum REPAIRED (all 255 values), and broken headers "
                       "directly followed by a valid member (no header may be returned then or on the next request)" % len(bases),
               "exhaustive": True, "distribution": dict(dist), "samples": [lines[0][:200], lines[1][:200], lines[-1][:200]]}
        return {"violations": viol[:10], "mismatches": mism[:10], "coverage": cov,
                "search_note": "direct oracle: independent intact() vs whether the C returned a header"}
    finally:
        cb.close()


def replay(payload):
    cb = CBuild(PID)
    try:
        cexe = build(cb)
        out = common.run_lines_parallel([cexe], [payload["case"]])
        a = common.unhex(payload["case"].split()[2])
        print("observed:", out[0][:600], "intact:", lb.intact(a))
        bad = (out[0].startswith("H ") or " again=1" in out[0]) and not lb.intact(a)
        print("REPRODUCED" if bad else "not reproduced")
        return 1 if bad else 0
    finally:
        cb.close()

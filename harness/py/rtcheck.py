"""Shared body of the encoder round-trip checks (C02, C04): spec encoder -> C decoder -> spec expansion,
plus model-vs-C equality."""
import os, random, hashlib, collections
import common, decgen
from common import CBuild


def build(cb):
    return cb.compile("drv_dec", [os.path.join(common.CDIR, "drv_dec.c")] + cb.lib_sources())


def roundtrip(ctx, pid, enc_cases, rule, model_limit=200000, extra_lines=None):
    """enc_cases: list of (method, tag, encoder line).  The encoder prints '<hex> <len> <fnv> [wf] ...'."""
    rnd = random.Random(ctx.seed * 2147483647 + sum(pid.encode()) % 1000)     # (was hash(pid): salted per process, so a run could not be repeated)
    cb = CBuild(pid)
    viol, mism = [], []
    dist = collections.Counter()
    try:
        cexe = build(cb)
        eo = common.run_lines_parallel([ctx.model], [c[2] for c in enc_cases], timeout=1800)
        lines, expect, tags = [], [], []
        for (meth, tag, el), o in zip(enc_cases, eo):
            parts = o.split()
            if len(parts) < 3 or (len(parts) >= 4 and parts[3] == "0") or parts[0] in ("ERR", "FAULT"):
                mism.append({"case": el[:2000], "model": o[:300], "note": "spec encoder rejected a generated command list"})
                continue
            n = int(parts[1])
            stream = common.unhex(parts[0])
            # -pm1- streams are continued by zero bits; arbitrary trailing bytes would be part of the stream
            pad = b"" if meth == "-pm1-" else bytes(rnd.randrange(256) for _ in range(rnd.choice([0, 0, 3])))
            if meth == "-pm1-" and rnd.random() < 0.3:
                pad = bytes(rnd.choice([0, 1, 4]))
            if meth == "-pm1-":
                # the zero-extension rule: a stream whose trailing zero bytes are missing (all of them, or some) decodes
                # to the same output -- the decoder continues with zero bits for as long as it takes
                z = len(stream) - len(stream.rstrip(b"\0"))
                r = rnd.random()
                if z and r < 0.45:
                    stream, pad = stream[:len(stream) - z], b""
                elif z > 1 and r < 0.6:
                    stream, pad = stream[:len(stream) - rnd.randrange(1, z)], b""
            reads = rnd.choice(decgen.read_schedules(rnd, n)) if n < 200000 else "%d" % (n + 5)
            chunks = rnd.choice(["-", "-", "1", "3", "4096"])
            lines.append(decgen.case(meth, stream + pad, chunks, n, reads, rnd.choice([-1, 0])))
            expect.append((parts[2], n))
            tags.append(tag)
            dist[meth + ":" + tag.split("@")[0].split("-")[0]] += 1
        for (meth, tag, ln) in (extra_lines or []):
            lines.append(ln)
            expect.append(None)
            tags.append(tag)
            dist[meth + ":" + tag] += 1
        co = common.run_lines_parallel([cexe], lines, timeout=1800)
        small = [i for i, e in enumerate(expect) if e is None or e[1] <= model_limit]
        mo = dict(zip(small, common.run_lines_parallel([ctx.model], [lines[i] for i in small], timeout=1800)))
        nontriv = 0
        seen = set()
        for i, (ln, ex, c) in enumerate(zip(lines, expect, co)):
            pc = decgen.parse(c)
            hk = hashlib.md5(ln.encode()).digest()
            if hk not in seen:
                seen.add(hk)
                if ex is not None and ex[1] > 0:
                    nontriv += 1
            if ex is not None and (pc.get("h") != ex[0] or pc.get("len") != str(ex[1])):
                viol.append({"property": pid, "kind": "decode-differs-from-denotation", "case": ln[:200000],
                             "observed": c[:300], "expected_hash": ex[0], "expected_len": ex[1], "shape": tags[i],
                             "sig": "decode:" + ln.split()[1]})
                continue
            if i in mo and mo[i] != c:
                mism.append({"case": ln[:3000], "c": c[:300], "model": mo[i][:300]})
        cov = {"evaluations": len(lines), "distinct_nontrivial": nontriv, "rule": rule,
               "distribution": dict(dist), "samples": [c[2][:160] for c in enc_cases[:3]]}
        return {"violations": viol[:10], "mismatches": mism[:10], "coverage": cov,
                "search_note": "direct oracle: C output hash vs extracted spec expansion on every encoder-made stream"}
    finally:
        cb.close()


def replay(pid, payload):
    cb = CBuild(pid)
    try:
        cexe = build(cb)
        out = common.run_lines_parallel([cexe], [payload["case"]])
        print("observed:", out[0][:300]); print("expected hash/len:", payload.get("expected_hash"), payload.get("expected_len"))
        bad = decgen.parse(out[0]).get("h") != payload.get("expected_hash")
        print("REPRODUCED" if bad else "not reproduced")
        return 1 if bad else 0
    finally:
        cb.close()

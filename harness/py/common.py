"""Shared machinery of the checks: translator run, Coq build and assumption
audit, model/driver builds, differential runs, evidence, replays, findings."""
import os, sys, re, json, time, subprocess, hashlib, shutil, random, tempfile, glob
from concurrent.futures import ThreadPoolExecutor

PY = os.path.dirname(os.path.abspath(__file__))
VERIF = os.path.dirname(os.path.dirname(PY))
REPO = os.environ.get("LHASA_REPO", "/repo")
COQ = os.path.join(VERIF, "coq")
BUILD = os.path.join(VERIF, "build")
ML = os.path.join(VERIF, "harness/ml")
CDIR = os.path.join(VERIF, "harness/c")
NCPU = os.cpu_count() or 4

ALLOWED_AXIOMS = set()   # the development declares none and uses none

FORBIDDEN = re.compile(
    r"\b(Admitted|admit|Axiom|Axioms|Parameter|Parameters|Conjecture|Conjectures|"
    r"bypass_check|Guard Checking|Positivity Checking|Universe Checking|"
    r"type-in-type|impredicative-set)\b|Admit Obligations")


class Broken(Exception):
    """A proof obligation or the tie no longer checks (not yet a violation)."""


def sh(cmd, timeout=None, cwd=None, env=None, input=None):
    p = subprocess.run(cmd, cwd=cwd, env=env, input=input, stdout=subprocess.PIPE,
                       stderr=subprocess.STDOUT, timeout=timeout)
    return p.returncode, p.stdout.decode(errors="replace")


# ---------------------------------------------------------------- translator

def regen():
    """Regenerate coq/Generated.v.  rc 0: everything read; rc 3: some items could not be read any more (renamed or
    removed in the source) and keep their previous values -- regen_failed() lists them; rc 2: nothing could be read."""
    rc, out = sh([sys.executable, os.path.join(VERIF, "tools/gen_constants.py"),
                  "--repo", REPO], timeout=600)
    return rc in (0, 3), out


def regen_failed():
    """[{file, item, kind, message}] of the last translator run"""
    p = os.path.join(VERIF, "build", "translator_status.json")
    try:
        return json.load(open(p)).get("failed", [])
    except (OSError, ValueError):
        return []


def anchor_files(pid):
    for line in open(os.path.join(VERIF, "properties.jsonl")):
        d = json.loads(line)
        if d.get("id") == pid:
            return set(d.get("anchors", {}).get("files", []))
    return set()


# ---------------------------------------------------------------- Coq

def coq_makefile():
    mk = os.path.join(COQ, "Makefile")
    cp = os.path.join(COQ, "_CoqProject")
    if (not os.path.exists(mk)) or os.path.getmtime(mk) < os.path.getmtime(cp):
        sh(["coq_makefile", "-f", "_CoqProject", "-o", "Makefile"], cwd=COQ)


def scan_forbidden():
    bad = []
    for f in sorted(glob.glob(os.path.join(COQ, "*.v"))):
        for n, line in enumerate(open(f), 1):
            if FORBIDDEN.search(line):
                bad.append("%s:%d: %s" % (os.path.basename(f), n, line.strip()))
    return bad


def coq_make(targets, timeout=3000, clean=False):
    coq_makefile()
    if clean:
        sh(["make", "-C", COQ, "clean"], timeout=300)
        coq_makefile()
    rc, out = sh(["make", "-C", COQ, "-k", "-j%d" % NCPU] + targets, timeout=timeout)
    return rc == 0, out


def property_theorems(pid):
    """Names of the Theorem/Corollary/Example statements in Properties_<pid>.v"""
    path = os.path.join(COQ, "Properties_%s.v" % pid)
    names = []
    for line in open(path):
        m = re.match(r"\s*(Theorem|Corollary|Example|Lemma)\s+([A-Za-z0-9_']+)", line)
        if m:
            names.append((m.group(1), m.group(2)))
    return names


def print_assumptions(pid, names):
    """Ask coqc for the assumptions of every property theorem (fresh, so it
    is reported even when the .vo was cached)."""
    d = tempfile.mkdtemp(prefix="assume_", dir=ensure_build())
    try:
        src = os.path.join(d, "Assume_%s.v" % pid)
        with open(src, "w") as f:
            f.write("From Lhasa Require Import Properties_%s.\n" % pid)
            for _, n in names:
                f.write('Goal True. idtac "@@ %s". exact I. Qed.\nPrint Assumptions %s.\n' % (n, n))
        rc, out = sh(["coqc", "-Q", COQ, "Lhasa", src], timeout=600)
    finally:
        shutil.rmtree(d, ignore_errors=True)
    if rc != 0:
        raise Broken("Print Assumptions run failed for %s: %s" % (pid, out[-500:]))
    res = {}
    cur = None
    for line in out.splitlines():
        if line.startswith("@@ "):
            cur = line[3:].strip()
            res[cur] = []
        elif cur is not None and line.strip():
            res[cur].append(line.strip())
    return res


def audit_assumptions(assum):
    """Returns (axioms_used:set, bad:list)."""
    used, bad = set(), []
    for thm, lines in assum.items():
        txt = " ".join(lines)
        if "Closed under the global context" in txt:
            continue
        for l in lines:
            if l.startswith("Axioms:") or not l:
                continue
            m = re.match(r"([A-Za-z0-9_.']+)\s*:", l)
            if m:
                ax = m.group(1)
                used.add(ax)
                if ax not in ALLOWED_AXIOMS:
                    bad.append("%s depends on %s" % (thm, ax))
    return used, bad


def prove(pid, clean=False):
    """Step 2 of the check.  Returns dict; raises Broken when the obligations
    do not all check."""
    t0 = time.time()
    bad = scan_forbidden()
    if bad:
        raise Broken("forbidden construct in the development: " + "; ".join(bad[:5]))
    ok, out = coq_make(["Properties_%s.vo" % pid], clean=clean)
    if not ok:
        m = re.findall(r'File "\./([A-Za-z0-9_]+\.v)", line (\d+)[^\n]*\n(?:[^\n]*\n){0,6}', out)
        first = out[out.find("File "):][:800] if "File " in out else out[-800:]
        raise Broken("proof obligation no longer checks (make Properties_%s.vo): %s" % (pid, first))
    names = property_theorems(pid)
    assum = print_assumptions(pid, names)
    used, badax = audit_assumptions(assum)
    if badax:
        raise Broken("unexpected axioms: " + "; ".join(badax))
    missing = [n for _, n in names if n not in assum]
    if missing:
        raise Broken("no assumption report for " + ",".join(missing))
    return {"theorems": [n for _, n in names], "kinds": names, "axioms": sorted(used),
            "assumptions": {k: v for k, v in assum.items()}, "prove_s": round(time.time() - t0, 1)}


# ---------------------------------------------------------------- builds

def ensure_build():
    os.makedirs(BUILD, exist_ok=True)
    return BUILD


def build_model():
    """Extract the model to OCaml and compile the runner (cached on content)."""
    ensure_build()
    ok, out = coq_make(["Extract.vo"])
    if not ok:
        raise Broken("extraction failed: " + out[-800:])
    names = ["model.mli", "model.ml", "reg.ml"] + sorted(
        os.path.basename(f) for f in glob.glob(os.path.join(ML, "d_*.ml"))) + ["main.ml"]
    mlsrc = [os.path.join(ML, f) for f in names]
    h = hashlib.sha256()
    for f in mlsrc:
        h.update(open(f, "rb").read())
    stamp = os.path.join(BUILD, "model_run.stamp")
    exe = os.path.join(BUILD, "model_run")
    if os.path.exists(exe) and os.path.exists(stamp) and open(stamp).read() == h.hexdigest():
        return exe
    d = os.path.join(BUILD, "ml")
    shutil.rmtree(d, ignore_errors=True)
    os.makedirs(d)
    for f in mlsrc:
        shutil.copy(f, d)
    rc, out = sh(["ocamlfind", "ocamlopt", "-O3", "-unsafe", "-inline", "200", "-w", "-a"] + names + ["-o", exe],
                 cwd=d, timeout=900)
    if rc != 0:
        raise Broken("OCaml build of the extracted model failed: " + out[-1500:])
    open(stamp, "w").write(h.hexdigest())
    return exe


def xcheck(model_exe):
    """The slice coq/XCheck.v evaluated twice: by vm_compute inside coqc and by the extracted program.
    Returns (ok, detail)."""
    d = tempfile.mkdtemp(prefix="xcheck_", dir=ensure_build())
    try:
        src = os.path.join(d, "XEval.v")
        open(src, "w").write("From Coq Require Import NArith List.\nImport ListNotations.\nFrom Lhasa Require Import XCheck.\n"
                             "Local Open Scope N_scope.\nEval vm_compute in xcheck_all.\n")
        rc, out = sh(["coqc", "-Q", COQ, "Lhasa", src], cwd=d, timeout=600)
        if rc != 0:
            return False, "coqc could not evaluate xcheck_all: " + out[-600:]
        body = out[out.index("=") + 1:out.rindex(":")] if "=" in out and ":" in out else ""
        coq_val = [[int(x) for x in re.findall(r"\d+", row)] for row in re.findall(r"\[([^\[\]]*)\]", body)]
        ml = run_lines([model_exe], ["xcheck"])[0][0]
        ml_val = [[int(x) for x in row.split(",") if x] for row in ml.split(";")]
        if not coq_val or coq_val != ml_val:
            return False, "vm_compute and the extracted program disagree on xcheck_all: coq=%r ocaml=%r" % (coq_val[:3], ml_val[:3])
        return True, "%d rows, %d numbers" % (len(coq_val), sum(len(r) for r in coq_val))
    finally:
        shutil.rmtree(d, ignore_errors=True)


def coqchk(pid, timeout=1800):
    """Second checker: coqchk re-checks Properties_<pid>.vo and everything it depends on and lists the axioms.
    Returns (ok, axioms, detail)."""
    rc, out = sh(["coqchk", "-o", "-silent", "-Q", COQ, "Lhasa", "Lhasa.Properties_%s" % pid], cwd=COQ, timeout=timeout)
    axioms = []
    grab = False
    for line in out.splitlines():
        if line.strip().startswith("* Axioms:"):
            grab = True
            rest = line.split(":", 1)[1].strip()
            if rest and rest != "<none>":
                axioms.append(rest)
            continue
        if grab:
            if line.startswith("    ") and line.strip():
                axioms.append(line.strip())
            else:
                grab = False
    return rc == 0, axioms, out[-1500:]


SAN = ["-O1", "-g", "-fsanitize=address,bounds,null", "-fno-sanitize-recover=all",
       "-fno-omit-frame-pointer"]


def inc_flags():
    flags = ["-DHAVE_CONFIG_H", "-I" + REPO, "-I" + os.path.join(REPO, "lib"),
             "-I" + os.path.join(REPO, "lib/public"), "-I" + os.path.join(REPO, "src")]
    if not os.path.exists(os.path.join(REPO, "config.h")):
        flags.append("-I" + os.path.join(CDIR, "fallback"))
    return flags


LIB_SOURCES = ["crc16.c", "ext_header.c", "lh1_decoder.c", "lh5_decoder.c", "lh6_decoder.c",
               "lh7_decoder.c", "lhx_decoder.c", "lk7_decoder.c", "lha_arch_unix.c",
               "lha_arch_win32.c", "lha_decoder.c", "lha_endian.c", "lha_file_header.c",
               "lha_input_stream.c", "lha_basic_reader.c", "lha_reader.c", "lz5_decoder.c",
               "lzs_decoder.c", "macbinary.c", "null_decoder.c", "pm1_decoder.c", "pm2_decoder.c"]
SRC_SOURCES = ["main.c", "extract.c", "filter.c", "list.c", "safe.c"]


class CBuild:
    """A scratch build directory for drivers compiled from /repo's working
    tree; removed by close()."""

    def __init__(self, tag):
        ensure_build()
        self.dir = tempfile.mkdtemp(prefix="c_%s_" % tag, dir=BUILD)

    def compile(self, name, sources, extra=None, sanitize=True, cc="clang", libs=None):
        """sources: absolute paths.  Objects compiled in parallel."""
        flags = (SAN if sanitize else ["-O1", "-g"]) + inc_flags() + list(extra or [])
        objs = []

        def one(src):
            o = os.path.join(self.dir, name + "_" + hashlib.md5(src.encode()).hexdigest()[:8] + "_" +
                             os.path.basename(src) + ".o")
            rc, out = sh([cc, "-w", "-c"] + flags + [src, "-o", o], timeout=600)
            return src, o, rc, out
        with ThreadPoolExecutor(max_workers=NCPU) as ex:
            res = list(ex.map(one, sources))
        for src, o, rc, out in res:
            if rc != 0:
                raise Broken("cannot compile %s from the working tree: %s" % (src, out[-1200:]))
            objs.append(o)
        exe = os.path.join(self.dir, name)
        rc, out = sh([cc] + (SAN if sanitize else []) + objs + ["-o", exe] + list(libs or []), timeout=600)
        if rc != 0:
            raise Broken("cannot link %s: %s" % (name, out[-1200:]))
        return exe

    def lib_sources(self, names=None):
        return [os.path.join(REPO, "lib", f) for f in (names or LIB_SOURCES)]

    def close(self):
        shutil.rmtree(self.dir, ignore_errors=True)


WRAP = ["-Wl,--wrap=malloc,--wrap=calloc,--wrap=realloc,--wrap=strdup,--wrap=free,--wrap=fopen,--wrap=fdopen,--wrap=fclose"]


def alloc_sources():
    return [os.path.join(CDIR, "verif_alloc.c")]


ASAN_ENV = {"ASAN_OPTIONS": "detect_leaks=0:abort_on_error=0:exitcode=99:allocator_may_return_null=1",
            "UBSAN_OPTIONS": "halt_on_error=1:exitcode=98"}


def run_lines(exe_cmd, lines, timeout=600, env=None, chunk=None):
    """Feed case lines to a runner; returns list of output lines (one per
    case) and, if the process died, the index of the case it died in and the
    tail of its stderr."""
    e = dict(os.environ)
    e.update(ASAN_ENV)
    if env:
        e.update(env)
    data = ("\n".join(lines) + "\n").encode()
    p = subprocess.run(exe_cmd, input=data, stdout=subprocess.PIPE, stderr=subprocess.PIPE,
                       timeout=timeout, env=e)
    out = p.stdout.decode(errors="replace").splitlines()
    err = p.stderr.decode(errors="replace")
    return out, p.returncode, err


def run_lines_parallel(exe_cmd, lines, jobs=None, timeout=900, env=None, single_timeout=30, max_hangs=4):
    """Split the case list over several processes (order preserved).  A
    process that dies yields 'CRASH <rc> <summary>' for the case it died in
    and the remaining cases of its shard are re-run one by one."""
    jobs = jobs or NCPU
    n = len(lines)
    if n == 0:
        return []
    size = max(1, (n + jobs - 1) // jobs)
    shards = [(i, lines[i:i + size]) for i in range(0, n, size)]

    def work(sh_):
        start, ls = sh_
        res = []
        pos = 0
        while pos < len(ls):
            try:
                out, rc, err = run_lines(exe_cmd, ls[pos:], timeout=timeout, env=env)
            except subprocess.TimeoutExpired:
                # find the hanging case by running singly
                out, rc, err = [], -9, "TIMEOUT"
                single = []
                hangs = 0
                for l in ls[pos:]:
                    if hangs >= max_hangs:
                        single.append("SKIPPED after %d hangs in this shard" % hangs)
                        continue
                    try:
                        o, r, e2 = run_lines(exe_cmd, [l], timeout=single_timeout, env=env)
                        single.append(o[0] if o and r == 0 else "CRASH %d %s" % (r, crash_summary(e2)))
                    except subprocess.TimeoutExpired:
                        single.append("HANG")
                        hangs += 1
                res.extend(single)
                pos = len(ls)
                break
            if rc == 0 and len(out) == len(ls) - pos:
                res.extend(out)
                pos = len(ls)
            else:
                good = out[:max(0, min(len(out), len(ls) - pos - 1))] if rc != 0 else out
                # the case after the last complete line is the one that died
                res.extend(good)
                pos += len(good)
                if pos < len(ls):
                    res.append("CRASH %d %s" % (rc, crash_summary(err)))
                    pos += 1
        return res
    with ThreadPoolExecutor(max_workers=jobs) as ex:
        parts = list(ex.map(work, shards))
    flat = []
    for p in parts:
        flat.extend(p)
    return flat


def crash_summary(err):
    m = re.search(r"ERROR: AddressSanitizer: ([a-zA-Z0-9_-]+)", err)
    where = re.findall(r"#\d+ 0x[0-9a-f]+ in ([A-Za-z0-9_]+) ", err)
    if m:
        return "asan:%s@%s" % (m.group(1), ">".join(where[:3]))
    m = re.search(r"runtime error: ([^\n]+)", err)
    if m:
        loc = re.search(r"([a-z0-9_]+\.c):(\d+)", err)
        return "ubsan:%s@%s" % (m.group(1)[:60].replace(" ", "_"), loc.group(0) if loc else "?")
    if not err.strip():
        return "trap(SIGILL=local-bounds)/signal"
    return "exit:" + err.strip().splitlines()[-1][:80].replace(" ", "_")


# ---------------------------------------------------------------- findings, replays, evidence

def known_findings():
    res = []
    p = os.path.join(VERIF, "KNOWN_FINDINGS.txt")
    if os.path.exists(p):
        for line in open(p):
            line = line.strip()
            if line.startswith("finding:"):
                m = re.search(r"property=(\S+)\s+sig=(\S+)\s*(.*)", line)
                if m:
                    res.append({"property": m.group(1), "sig": m.group(2), "text": m.group(3)})
    return res


def write_replay(pid, payload):
    os.makedirs(os.path.join(VERIF, "replays"), exist_ok=True)
    blob = json.dumps(payload, sort_keys=True, indent=1)
    h = hashlib.sha256(blob.encode()).hexdigest()[:12]
    path = os.path.join(VERIF, "replays", "%s-%s.json" % (pid, h))
    with open(path, "w") as f:
        f.write(blob + "\n")
    return path


def write_evidence(pid, tier, seed, coverage, wall, violations, assumptions, level="proof"):
    os.makedirs(os.path.join(VERIF, "evidence"), exist_ok=True)
    ev = {"property_id": pid, "tier": tier, "seed": seed, "level": level,
          "coverage": coverage, "assumptions": assumptions, "wall_s": round(wall, 2),
          "violations": violations}
    with open(os.path.join(VERIF, "evidence", "%s.json" % pid), "w") as f:
        json.dump(ev, f, indent=1, sort_keys=True)
        f.write("\n")


def hexs(bs):
    return bytes(bs).hex() if bs else "-"


def unhex(s):
    return b"" if s == "-" else bytes.fromhex(s)


# ---------------------------------------------------------------- the command-line tool

def build_lha(cb, sanitize=True):
    """the real tool from the working tree (with -DTEST_BUILD so that TEST_NOW_TIME is honoured)"""
    srcs = [os.path.join(REPO, "src", f) for f in SRC_SOURCES] + cb.lib_sources()
    return cb.compile("lha", srcs, extra=["-DTEST_BUILD"], sanitize=sanitize)


NOBODY = ["setpriv", "--reuid=65534", "--regid=65534", "--clear-groups"]


def run_lha(exe, args, cwd=None, stdin=None, now=None, as_nobody=False, timeout=60, env_extra=None):
    e = dict(os.environ)
    e.update(ASAN_ENV)
    e["TZ"] = "UTC"
    e["LC_ALL"] = "C"
    if now is not None:
        e["TEST_NOW_TIME"] = str(now)
    if env_extra:
        e.update(env_extra)
    cmd = (NOBODY if as_nobody and os.geteuid() == 0 else []) + [exe] + list(args)
    try:
        p = subprocess.run(cmd, cwd=cwd, input=stdin, stdout=subprocess.PIPE, stderr=subprocess.PIPE, timeout=timeout, env=e)
        return p.returncode, p.stdout, p.stderr
    except subprocess.TimeoutExpired as t:
        return -999, t.stdout or b"", (t.stderr or b"") + b"\nTIMEOUT"


def abnormal(rc, err):
    """None if the tool ended normally, else a short description"""
    txt = err.decode(errors="replace") if isinstance(err, bytes) else err
    if rc == -999:
        return "hang"
    if rc < 0:
        return "signal %d" % -rc
    if rc in (98, 99) or "AddressSanitizer" in txt or "runtime error:" in txt:
        return crash_summary(txt)
    return None


def scratch_dir(tag):
    base = "/dev/shm" if os.path.isdir("/dev/shm") else ensure_build()
    d = tempfile.mkdtemp(prefix="lhasa_%s_" % tag, dir=base)
    os.chmod(d, 0o755)
    return d

"""C10 -- extraction never touches anything outside the extraction directory."""
import os, re, random, collections, subprocess, posixpath
import common, test_rdr as T, test_cli as TC
from common import CBuild, CDIR

PID = "C10"
TRUSTED = ["the tool is src/main.c's main() linked with src/ and lib/ of the working tree (sanitizer build), run per case in a "
           "forked child that chroot()s into a fresh scratch tree S (extraction directory S/root, foreign parts S/outside and "
           "S/foreign), becomes uid 65534 and calls main(); the parent dumps the whole tree of S afterwards",
           "effects oracle: the dump of everything outside S/root after the run must equal the dump before it",
           "order oracle: strace -f of the same driver; the system calls of the child after a marker call are the tool's",
           "the model's operation trace (Cli*.v over Fs.v) is used to classify a failure (known finding or new), never to excuse one"]
ASSUMPTIONS = ["precondition of the property: the tree the tool starts in has no symbolic link to a directory (links to files and "
               "dangling links are allowed) and the invocation itself does not name a place outside (w= absolute, empty or with '..')",
               "an attempted operation that fails (EACCES as uid 65534, ENOENT) changes nothing and is not a violation; the runs as "
               "root inside the jail are the ones where such attempts would succeed"]

MUTATING = ("mkdir", "mkdirat", "open", "openat", "creat", "unlink", "unlinkat", "rmdir", "rename", "renameat", "renameat2", "symlink",
            "symlinkat", "link", "linkat", "chmod", "fchmod", "fchmodat", "chown", "fchown", "lchown", "fchownat", "utime", "utimes",
            "utimensat", "futimesat", "truncate", "ftruncate")
TRACE = "trace=access,faccessat,faccessat2," + ",".join(MUTATING)
MARK = "verif-tool-starts-here"


def build(cb):
    srcs = [os.path.join(CDIR, "drv_cli.c")] + [os.path.join(common.REPO, "src", f) for f in common.SRC_SOURCES if f != "main.c"] \
        + cb.lib_sources()
    drv = cb.compile("drv_cli", srcs, extra=["-I" + CDIR, "-DTEST_BUILD"], sanitize=True)
    rdrv = cb.compile("drv_rdr", [os.path.join(CDIR, "drv_rdr.c")] + cb.lib_sources(), extra=["-I" + CDIR], sanitize=True)
    return drv, rdrv


def dangerous(t):
    return t.startswith(b"/") or b".." in t.split(b"/")


def setup_links(line):
    """(path, target) of the symbolic links the set-up creates"""
    t = line.split(" ")[7:]
    res = []
    i = 0
    while i < len(t):
        if t[i] == "symlink" and i + 2 < len(t):
            res.append((common.unhex(t[i + 1]), common.unhex(t[i + 2])))
            i += 3
        else:
            i += 1
    return res


def classify(line, setup_dump):
    """(read-only command?, confinement precondition holds?)"""
    ro, conf = TC.C10.classify(line)
    links = setup_links(line)
    if links and not conf:
        # re-admit set-ups whose links point to files or nowhere: the property only excludes links to directories
        av = TC.case_argv(line)
        c = av[0][1:] if av and av[0].startswith(b"-") else (av[0] if av else b"")
        rest = c[1:]
        w = None
        if b"w" in rest:
            w = rest[rest.index(b"w") + 1:]
            w = w[1:] if w.startswith(b"=") else w
        benign_w = w is None or (w != b"" and not w.startswith(b"/") and b".." not in w.split(b"/"))
        tree = T.parse_dump(setup_dump.split("|", 1)[1]) if "|" in setup_dump else None
        if tree is not None and benign_w:
            ok = True
            for p, tg in links:
                base = p if p.startswith(b"/") else b"/root/" + p
                dest = posixpath.normpath(posixpath.join(posixpath.dirname(base), tg)).lstrip(b"/")
                ent = tree.get(dest)
                if dest == b"" or (ent is not None and ent[0] in ("D", "L")):
                    ok = False
                # a link whose own parent directories do not exist yet is not created at all: harmless
            conf = ok
    return ro, conf


def trace_sig(ops):
    """classify an escape by the model's operation trace: the known finding is an operation outside the root in the
    final phase (deferred links, created longest path first as documented) that goes through a SAFE link of the archive
    which points at the place of a deferred link created just before"""
    parsed = []
    for o in ops:
        f = o.split(":")
        parsed.append((f[0], common.unhex(f[1]), common.unhex(f[2]) if f[0] == "symlink" and len(f) > 2 else None))
    first_danger = next((i for i, (k, p, t) in enumerate(parsed) if k == "symlink" and dangerous(t)), None)
    out_i = next((i for i, (k, p, t) in enumerate(parsed) if not (p == b"root" or p.startswith(b"root/"))), None)
    if out_i is None:
        return "outside-tree-changed-without-traced-operation"
    kind = parsed[out_i][0]
    if first_danger is None or out_i < first_danger:
        return "main-phase:" + kind
    deferred = [(p, t) for k, p, t in parsed[first_danger:out_i] if k == "symlink" and dangerous(t)]
    lens_ok = all(len(a[0]) >= len(b[0]) for a, b in zip(deferred, deferred[1:]))
    safe = [(p, t) for k, p, t in parsed[:first_danger] if k == "symlink" and not dangerous(t)]
    through = False
    for sp, st in safe:
        dest = posixpath.normpath(posixpath.join(posixpath.dirname(sp), st))
        if any(dp == dest or dp.startswith(dest + b"/") or dest.startswith(dp + b"/") for dp, _ in deferred):
            through = True
    if lens_ok and through and kind in ("unlink", "symlink", "mkdir"):
        return "deferred-link-through-safe-link"
    return "deferred-phase:" + kind + (":order" if not lens_ok else "")


def strace_cases(drv, lines, scratch):
    """system calls of the tool (after the marker) for each case: list of (name, args, ret)"""
    res = []
    for i, l in enumerate(lines):
        out = os.path.join(scratch, "st%d.out" % i)
        try:
            subprocess.run(["strace", "-f", "-qq", "-s", "4096", "-o", out, "-e", TRACE, drv], input=(l + "\n").encode(),
                           stdout=subprocess.PIPE, stderr=subprocess.PIPE, timeout=60)
            txt = open(out, errors="replace").read()
        except (OSError, subprocess.TimeoutExpired):
            res.append(None)
            continue
        finally:
            if os.path.exists(out):
                os.unlink(out)
        calls = None
        pid = None
        for ln in txt.splitlines():
            m = re.match(r"(\d+)\s+(\w+)\((.*)\)\s+= (-?\d+|\?)", ln)
            if not m:
                continue
            if calls is None:
                if MARK in ln:
                    calls, pid = [], m.group(1)
                continue
            if m.group(1) == pid and m.group(2) in MUTATING:
                calls.append((m.group(2), m.group(3), m.group(4)))
        res.append(calls)
    return res


def cstr(a):
    """first C string literal of a strace argument list"""
    m = re.search(r'"((?:[^"\\]|\\.)*)"', a)
    if not m:
        return None
    return re.sub(rb"\\(x[0-9a-f]{2}|[0-7]{1,3}|.)",
                  lambda k: (bytes([int(k.group(1)[1:], 16)]) if k.group(1)[:1] == b"x" else
                             bytes([int(k.group(1), 8)]) if k.group(1)[:1].isdigit() else
                             {b"n": b"\n", b"t": b"\t", b"r": b"\r"}.get(k.group(1), k.group(1))), m.group(1).encode("latin-1"))


def order_violation(calls, flat):
    """'dangerous symlinks come into existence only after every other entry has been written, longest path first'"""
    seen = False
    last_len = None
    safe_links, danger_paths = {}, []
    for name, args, ret in calls:
        ok = ret not in ("?",) and not ret.startswith("-")
        if not ok:
            continue
        if name in ("open", "openat", "creat") and "O_CREAT" not in args and name != "creat":
            continue
        if name == "symlink":
            strs = re.findall(r'"((?:[^"\\]|\\.)*)"', args)
            tg = cstr('"%s"' % strs[0]) if strs else b""
            pth = cstr('"%s"' % strs[1]) if len(strs) > 1 else b""
            if dangerous(tg):
                if seen and not flat and last_len is not None and len(pth) > last_len:
                    return "dangerous link %r created after a shorter one (longest path first)" % pth
                seen, last_len = True, len(pth)
                danger_paths.append(pth)
            else:
                safe_links[pth] = tg
            continue
        if name in ("unlink", "unlinkat"):
            continue                       # lha_arch_symlink removes what is in the way of each link
        if seen:
            # known mechanism: the parent directories of a deferred link are made (make_parent_directories) through a
            # safe link of the archive that points at the place of a dangerous link created just before
            if name in ("mkdir", "mkdirat"):
                pth = cstr(args) or b""
                first = pth.split(b"/")[0]
                if first in safe_links and any(d == safe_links[first] or d.startswith(safe_links[first] + b"/") for d in danger_paths):
                    return "KNOWN:" + "%s(%s) through the safe link %r -> %r after the dangerous link %r exists" % (
                        name, args[:80], first, safe_links[first], safe_links[first])
            return "%s(%s) after a dangerous symbolic link came into existence" % (name, args[:120])
    return None


def dotname_cases(rnd):
    """entries whose NAME (not a path component followed by a separator, which the library collapses) is '..', '.' or
    empty, as directory, file and link, with recorded mode / time / owner: nothing may reach the parent of the
    extraction directory"""
    import struct, lhabuild as lb
    lines = []
    def hdr(method, exts, lv=2, data=b"", ts=T.T_A):
        f = {"level": lv, "method": method, "clen": len(data), "length": len(data), "crc": lb.crc16(data), "os": T.U, "attr": 0x20,
             "time": ts if lv >= 2 else T.DOS_B, "exts": exts}
        if lv == 1:
            f["name"] = b""
        return lb.build_header(f) + data
    perms_d = (0x50, struct.pack("<H", 0o40700))
    perms_f = (0x50, struct.pack("<H", 0o100600))
    owner = (0x51, struct.pack("<HH", 1, 1))
    stamp = (0x54, struct.pack("<I", T.T_A))
    variants = []
    for nm in (b"..", b".", b""):
        for lv in (1, 2, 3):
            tail = [perms_d, owner] + ([stamp] if lv == 1 else [])
            variants.append(hdr(b"-lhd-", [(1, nm), (2, b"\xff")] + tail, lv))               # path "/", name ".."
            variants.append(hdr(b"-lhd-", [(2, nm + b"\0\xff")] + tail, lv))                  # the NUL hides the separator
            variants.append(hdr(b"-lhd-", [(1, nm), (2, b"d\xff")] + tail, lv))              # d/..
            variants.append(hdr(b"-lhd-", [(1, nm)] + tail, lv))
            variants.append(hdr(b"-lh0-", [(1, nm), perms_f], lv, b"data"))
            variants.append(hdr(b"-lhd-", [(1, nm + b"|../outside"), (0x50, struct.pack("<H", 0o120777))], lv))
    # separators inside the NAME header (the library replaces them; nothing downstream cleans the name): after a '|' (which
    # splits only real symlink entries), after a backslash, at the start, doubled -- as file, directory and plain -lhd- entry
    for nm in (b"note|/../../escaped", b"x|../../escaped", b"|/../escaped", b"a/../../escaped", b"/../escaped", b"../escaped",
               b"a|b|/../../escaped", b"d|/..", b"a\\../../escaped", b"..//../escaped"):
        for lv in (1, 2, 3):
            variants.append(hdr(b"-lh0-", [(1, nm), perms_f], lv, b"data"))
            variants.append(hdr(b"-lh5-", [(1, nm), (2, b"sub\xff"), perms_f], lv, b""))
            variants.append(hdr(b"-lhd-", [(1, nm), perms_d, owner], lv))
    for v in variants:
        arc = v + hdr(b"-lh0-", [(1, b"after"), perms_f], 2, b"x") + b"\0"
        for cmd in (b"x", b"xf", b"xq2", b"xw=o", b"e"):
            lines.append(TC.case([cmd, TC.ARC], arc, uid0=1 if rnd.random() < 0.3 else 0))
    return lines


def dotdot_inside_cases(rnd):
    """(audit round 5) link targets whose '..' stay below the link's own directory when read as text -- 'd/..', 'd/d/..', './d/..',
    'd/d/d/../../..', 'x/../d/..' -- next to a harmless link 'd -> .': as text they look like the directory itself, the kernel
    resolves them to the PARENT of the extraction directory.  They contain '..', so they are dangerous links: created last, and a
    member written 'through' them must not end up outside.  (The generated archives have the target 'd/..' only by chance, and
    almost never together with a link 'd' that makes it climb.)"""
    r = random.Random(23)

    def S(n):
        d = bytes((i * 7 + 1) & 0xff for i in range(n))
        return {"method": "-lh0-", "data": d, "length": len(d), "crc": T.crc16(d), "plain": d}

    def F(full, lv=2):
        return T.file_member(r, S(5), full, lv)

    def D(path, perms=0o40755, lv=2):
        return T.dir_member(r, path, lv, perms)

    def L(full, t, lv=2):
        return T.link_member(r, full, t, lv)
    lines = []
    for lv in (2, 1, 0, 3):
        arcs = [
            [L(b"d", b".", lv), L(b"l", b"d/..", lv), F(b"l/esc1", lv)],
            [L(b"d", b".", lv), L(b"l", b"d/d/..", lv), F(b"l/esc2", lv), D(b"l/sub/", 0o40700, lv)],
            [L(b"d", b".", lv), L(b"l", b"./d/..", lv), F(b"l/outside/esc3", lv)],
            [L(b"d", b".", lv), L(b"l", b"d/d/d/../../..", lv), F(b"l/esc4", lv), F(b"after", lv)],
            [L(b"d", b".", lv), L(b"l", b"x/../d/..", lv), D(b"x/", 0o40755, lv), F(b"l/esc5", lv)],
            [L(b"d", b".", lv), L(b"l", b"d/../outside", lv), F(b"l/esc6", lv)],
            [D(b"t/", 0o40755, lv), L(b"t/d", b".", lv), L(b"t/l", b"d/..", lv), F(b"t/l/esc7", lv)],
            [D(b"t/", 0o40755, lv), L(b"t/d", b"..", lv), L(b"l", b"t/d/..", lv), F(b"l/esc8", lv)],
            [L(b"l", b"d/..", lv), L(b"d", b".", lv), F(b"l/esc9", lv), L(b"m", b"l/outside", lv), F(b"m/esc10", lv)],
            [L(b"d", b".", lv), L(b"l", b"d/..", lv), L(b"l/outside/k", b"/x", lv), D(b"l/outside/nd/", 0o40700, lv)],
        ]
        for ms in arcs:
            arc = T.archive(ms)
            for c in ((b"x", b"xf", b"xw=o") if lv == 2 else (r.choice([b"x", b"xf", b"e", b"xq2"]),)):
                lines.append(TC.case([c, TC.ARC], arc, b"y\ny\n", uid0=1 if r.random() < 0.25 else 0))
    return lines


def linkfile_cases(arcs, rnd, quick):
    """a symbolic link already at the place of a member's final path component, pointing at a FILE outside the extraction
    directory or at nothing (both allowed by the property's precondition: only links to directories are excluded) --
    dangling links into writable foreign directories, and links that the tool cannot remove because the directory that
    holds them is read-only: whatever happens to the link, nothing outside may be created, truncated or re-timed"""
    lines = []
    use = {a.name: a for a in arcs if a.name in ("flat", "tree", "nodirs", "rodirs")}
    dangling = [b"/outside/new", b"../outside/new2", b"/foreign/ww/new", b"../foreign/ww/n2", b"/outside/nd/x", b"../foreign/new3"]
    existing = [b"/outside/f", b"../outside/f", b"/foreign/rd/g", b"../foreign/ww/h", b"/foreign/rf", b"/arc/a.lzh"]
    cmds = [b"x", b"xf", b"xq2", b"e", b"xq1", b"eq0"]
    for name, a in sorted(use.items()):
        files = [f for f in a.files() if not f.startswith(b"/") and b".." not in f.split(b"/")]
        for f in files:
            parts = f.split(b"/")
            parent = [TC.op_mkdir(b"/".join(parts[:i])) for i in range(1, len(parts))]
            pdir = b"/".join(parts[:-1]) or b"."
            up = b"../" * (len(parts) - 1)
            for tg in dangling + existing:
                t = tg if tg.startswith(b"/") else up + tg
                for locked in (False, True):
                    su = parent + [TC.op_link(f, t)] + ([TC.op_chmod(pdir, 0o555)] if locked else [])
                    for c in (cmds if not quick else rnd.sample(cmds, 2)):
                        lines.append(TC.case([c, TC.ARC], a.bytes, b"y\ny\ny\ny\n", su, uid0=1 if rnd.random() < 0.1 else 0))
            # flattened and relocated: the link sits where the flat / relocated name goes
            base = parts[-1]
            for tg in (b"/outside/new", b"/outside/f"):
                lines.append(TC.case([b"xi", TC.ARC], a.bytes, b"y\ny\ny\n", [TC.op_link(base, tg), TC.op_chmod(b".", 0o555)]))
                lines.append(TC.case([b"xfi", TC.ARC], a.bytes, b"", [TC.op_link(base, tg)]))
                lines.append(TC.case([b"xfw=o", TC.ARC], a.bytes, b"", [TC.op_mkdir(b"o")] + TC.relocate(parent, b"o/") +
                                     [TC.op_link(b"o/" + f, tg), TC.op_chmod(b"o/" + pdir if pdir != b"." else b"o", 0o555)]))
        # a link to an outside FILE where the archive has a directory entry with recorded mode and time
        for d in a.dirs():
            dd = d.rstrip(b"/")
            if b"/" in dd:
                continue
            for tg in (b"/outside/f", b"../outside/f", b"/foreign/rd/g", b"/outside/new"):
                for c in (b"x", b"xf", b"xq2"):
                    lines.append(TC.case([c, TC.ARC], a.bytes, b"y\ny\n", [TC.op_link(dd, tg)], uid0=1 if rnd.random() < 0.3 else 0))
    return lines


def run(ctx):
    rnd = random.Random(ctx.seed * 7919 + 10)
    cb = CBuild(PID)
    scratch = common.scratch_dir("c10")
    viol, mism = [], []
    dist = collections.Counter()
    try:
        drv, rdrv = build(cb)
        if common.sh([drv, "--probe"])[1].strip() != "chroot":
            raise common.Broken("drv_cli needs root (chroot + setuid per case)")
        pool = T.Pool(cb, [rdrv], rnd)
        arcs = TC.hand_archives(pool)
        q = ctx.quick
        fam = collections.OrderedDict()
        fam["danger"] = TC.fam_danger(pool, arcs, q, rnd, 150 if q else 6000)
        fam["options"] = TC.thin(TC.fam_options(arcs, q, rnd), 700 if q else 20000, rnd)
        fam["readonly"] = TC.thin(TC.fam_readonly(arcs, q, rnd), 200 if q else 2000, rnd)
        fam["prompts"] = TC.thin(TC.fam_prompts(arcs, q, rnd), 300 if q else 8000, rnd)
        fam["random"] = TC.fam_random(pool, q, rnd, 500 if q else 25000, uid0_share=0.15)
        fam["corrupt"] = TC.fam_corrupt(pool, arcs, q, rnd, 100 if q else 4000)
        if q:
            fam["danger"] = TC.thin(fam["danger"], 500, rnd)
        fam["danger"] = fam["danger"] + dotdot_inside_cases(rnd)      # (in "danger": both the effects and the order oracle see them)
        fam["dotnames"] = dotname_cases(rnd)
        fam["linkfile"] = TC.thin(linkfile_cases(arcs, rnd, q), 200 if q else 100000, rnd)
        corpus = [l.strip() for l in open(os.path.join(common.VERIF, "corpus", "C10", "deferred_through_safe_link.txt")) if l.startswith("cli ")]
        fam["corpus"] = corpus
        base_line = TC.case([b"t", TC.ARC], b"\0")
        base = TC.normalise_c(base_line, common.run_lines_parallel([drv], [base_line])[0])
        def outside(dump):
            """everything that is not below S/root -- S itself (the parent of the extraction directory) included"""
            t = T.parse_dump(dump)
            return {k: v for k, v in t.items() if not (k == b"root" or k.startswith(b"root/")) and k != b"arc/a.lzh"}
        base_out = outside(base.split("|", 1)[1])
        n_ro = n_conf = 0
        order_pool = []
        for name, lines in fam.items():
            lines = [l for l in lines if TC.comparable(l)]
            cout = [TC.normalise_c(l, c) for l, c in zip(lines, common.run_lines_parallel([drv], lines))]
            mout = common.run_lines_parallel([ctx.model], lines)
            sout = common.run_lines_parallel([ctx.model], ["clisetup" + l[3:] for l in lines])
            need_trace = []
            for l, c, m, s in zip(lines, cout, mout, sout):
                dist["%s:%s" % (name, (TC.case_argv(l) or [b"?"])[0][:1].decode("latin-1"))] += 1
                if c.startswith(("rc=99", "rc=98", "rc=SIG", "CRASH", "HANG")) or "|" not in c:
                    continue                               # abnormal termination is C08's subject
                if c != m:
                    mism.append({"case": l[:8000], "c": " ".join(TC.first_diff(c, m)[1:2])[:600], "model": TC.first_diff(c, m)[2][:600]})
                ro, conf = classify(l, s)
                if ro:
                    n_ro += 1
                    # list, test, print and dry run: the tree is exactly what the set-up left
                    if "|" in s and T.parse_dump(c.split("|", 1)[1]) != T.parse_dump(s.split("|", 1)[1]):
                        a, b = T.parse_dump(s.split("|", 1)[1]), T.parse_dump(c.split("|", 1)[1])
                        d = sorted(k for k in set(a) | set(b) if a.get(k) != b.get(k))
                        viol.append({"property": PID, "kind": "read-only-command-changed-the-tree", "case": l,
                                     "argv": [x.decode("latin-1") for x in TC.case_argv(l)], "changed": [k.decode("latin-1") for k in d[:5]],
                                     "sig": "readonly:" + (TC.case_argv(l) or [b"?"])[0][:1].decode("latin-1")})
                elif conf:
                    n_conf += 1
                    now_out = outside(c.split("|", 1)[1])
                    if now_out != base_out:
                        d = sorted(k for k in set(now_out) | set(base_out) if now_out.get(k) != base_out.get(k))
                        need_trace.append((l, d))
                    if name in ("danger", "random", "corpus") and (TC.case_argv(l) or [b"?"])[0].lstrip(b"-")[:1] in (b"x", b"e"):
                        order_pool.append(l)
            if need_trace:
                tro = common.run_lines_parallel([ctx.model], ["clitrace" + l[3:] for l, _ in need_trace])
                for (l, d), tr_ in zip(need_trace, tro):
                    ops = tr_.split() if "FAULT" not in tr_ and not tr_.startswith("ERR") else []
                    sig = trace_sig(ops) if ops else "outside-tree-changed"
                    viol.append({"property": PID, "kind": "object-outside-the-extraction-directory-changed", "case": l,
                                 "argv": [x.decode("latin-1") for x in TC.case_argv(l)], "changed_outside": [k.decode("latin-1") for k in d[:6]],
                                 "model_trace_tail": " ".join(ops[-6:]), "mechanism": sig, "sig": sig})
        # ---------------------------------------------------------------- order of the real system calls
        rnd.shuffle(order_pool)
        must = [l for l in dotdot_inside_cases(rnd)[:30:6] if TC.comparable(l)]      # (always traced: `x` on every second archive shape)
        sel = corpus + must + [l for l in order_pool[:(120 if q else 2500)] if l not in must]
        n_ord = n_danger = 0
        from concurrent.futures import ThreadPoolExecutor
        chunks = [sel[i::common.NCPU] for i in range(common.NCPU)]
        with ThreadPoolExecutor(max_workers=common.NCPU) as ex:
            outs = list(ex.map(lambda ic: strace_cases(drv, ic[1], os.path.join(scratch, "w%d" % ic[0])),
                               [(i, c) for i, c in enumerate(chunks) if (os.makedirs(os.path.join(scratch, "w%d" % i), exist_ok=True) or True)]))
        for ls, calls_l in zip(chunks, outs):
            for l, calls in zip(ls, calls_l):
                if calls is None:
                    continue
                n_ord += 1
                av = TC.case_argv(l)
                c0 = av[0][1:] if av and av[0].startswith(b"-") else (av[0] if av else b"")
                flat = b"i" in c0[1:].split(b"w")[0]
                if any(n_ == "symlink" for n_, a, r in calls):
                    n_danger += 1
                bad = order_violation(calls, flat)
                if bad:
                    known = bad.startswith("KNOWN:")
                    viol.append({"property": PID, "kind": "dangerous-symlink-not-created-last", "case": l,
                                 "argv": [x.decode("latin-1") for x in av], "what": bad[6:] if known else bad,
                                 "syscalls_tail": ["%s(%s) = %s" % c_ for c_ in calls[-8:]],
                                 "sig": "deferred-link-through-safe-link" if known else "order"})
        viol.sort(key=lambda v: len(v["case"]))
        cov = {"evaluations": sum(len(v) for v in fam.values()) + n_ord, "distinct_nontrivial": n_conf + n_ro,
               "rule": "invocations of the real tool in a jail: hand-built and generated archives with dangerous and safe links chained, "
                       "links then directories of the same name, equal-length deferred links, links already at a member's final component that point at an outside file or at nothing (also in a read-only directory, where the tool cannot remove them), entries whose own name is '..', '.' or empty (as directory, file, link; with recorded mode, time, owner; as uid 65534 and as root), hostile names ('..', absolute, "
                       "backslash, 0xFF, NUL), corrupt archives; every command letter; option sets over f q0-q2 i v n w=DIR (simple, "
                       "nested, absolute, empty, with '..'); pre-existing files, directories and links at the targets with prompt "
                       "answers; a share of the runs as root.  (a) %d extractions whose precondition holds: everything outside "
                       "S/root byte-identical to before (content, mode, mtime, link targets).  (b) %d list/test/print/dry-run "
                       "invocations: the whole tree identical to what the set-up left.  (c) strace of %d extractions (%d creating "
                       "links): after the first dangerous link comes into existence only symlink/unlink calls follow, longest path "
                       "first.  (d) model = C on exit status, stdout, stderr and tree for every case.  non-trivial = (a)+(b)"
                       % (n_conf, n_ro, n_ord, n_danger),
               "distribution": dict(dist), "samples": [fam["danger"][0][:400] if fam["danger"] else "", corpus[0][:400]]}
        return {"violations": viol[:12], "mismatches": mism[:10], "coverage": cov,
                "search_note": "direct oracles on the real tool (tree outside the root, whole tree for read-only commands, system-call order)"}
    finally:
        if os.geteuid() == 0:
            common.sh(["chmod", "-R", "u+rwx", scratch])
        import shutil
        shutil.rmtree(scratch, ignore_errors=True)
        cb.close()


def replay(payload):
    cb = CBuild(PID)
    scratch = common.scratch_dir("c10r")
    try:
        drv, rdrv = build(cb)
        l = payload["case"]
        print("argv:", payload.get("argv"), "kind:", payload.get("kind"))
        def outside(dump):
            t = T.parse_dump(dump)
            return {k: v for k, v in t.items() if not (k == b"root" or k.startswith(b"root/")) and k != b"arc/a.lzh"}
        bad = False
        if payload.get("kind") == "dangerous-symlink-not-created-last":
            calls = strace_cases(drv, [l], scratch)[0] or []
            av = TC.case_argv(l)
            c0 = av[0][1:] if av and av[0].startswith(b"-") else (av[0] if av else b"")
            what = order_violation(calls, b"i" in c0[1:].split(b"w")[0])
            print("system calls of the tool (tail):", ["%s(%s) = %s" % c_ for c_ in calls[-8:]])
            print("order oracle:", what)
            bad = bool(what) and not what.startswith("KNOWN:")
        elif payload.get("kind") == "read-only-command-changed-the-tree":
            o = TC.normalise_c(l, common.run_lines_parallel([drv], [l])[0])
            s_ = common.run_lines_parallel([common.build_model()], ["clisetup" + l[3:]])[0]
            bad = "|" in o and "|" in s_ and T.parse_dump(o.split("|", 1)[1]) != T.parse_dump(s_.split("|", 1)[1])
            print("tree differs from the set-up:", bad)
        else:
            base_line = TC.case([b"t", TC.ARC], b"\0")
            o = common.run_lines_parallel([drv], [base_line, l])
            base_out = outside(o[0].split("|", 1)[1])
            now_out = outside(o[1].split("|", 1)[1]) if "|" in o[1] else None
            d = sorted(k for k in set(now_out or {}) | set(base_out) if (now_out or {}).get(k) != base_out.get(k))
            print("changed outside the extraction directory:", [k.decode("latin-1") for k in d])
            bad = now_out != base_out
        print("REPRODUCED" if bad else "not reproduced")
        return 1 if bad else 0
    finally:
        import shutil
        shutil.rmtree(scratch, ignore_errors=True)
        cb.close()

"""C03 -- LArc -lzs-/-lz5- and the stored methods decode every valid stream exactly."""
import os, random, hashlib
import common, decgen
from common import CBuild, hexs

PID = "C03"
TRUSTED = ["C driver harness/c/drv_dec.c (public decoder API); spec encoder/expander S_Larc.v run extracted"]
ASSUMPTIONS = ["input callback returns at most the number of bytes asked for",
               "valid stream = serialisation of a command list that satisfies lzs_wf_cmd / lz5_wf_cmd"]


def build(cb):
    return cb.compile("drv_dec", [os.path.join(common.CDIR, "drv_dec.c")] + cb.lib_sources())


def run(ctx):
    rnd = random.Random(ctx.seed * 104729 + 3)
    cb = CBuild(PID)
    viol, mism = [], []
    dist = {"stored": 0, "lzs_enc": 0, "lz5_enc": 0, "cut": 0, "exhaustive_pos": 0}
    try:
        cexe = build(cb)
        lines, expect = [], []          # expect: (hash, length) or None

        # 1. stored methods
        nst = 150 if ctx.quick else 3000
        for i in range(nst):
            m = rnd.choice(["-lh0-", "-lz4-", "-pm0-"])
            n = rnd.choice([0, 1, 2, 1023, 1024, 1025, 2048, 2049, rnd.randrange(0, 5000)])
            data = bytes(rnd.randrange(256) for _ in range(n))
            L = rnd.choice([n, n, max(0, n - 1), n + 1, n // 2, 0, n + 5000])
            exp = data[:L]
            for reads in rnd.sample(decgen.read_schedules(rnd, len(exp)), 2):
                lines.append(decgen.case(m, data, decgen.chunkings(rnd), L, reads, rnd.choice([-1, 0, 1])))
                expect.append((decgen.fnv(exp), len(exp)))
                dist["stored"] += 1

        # 2. encoder-made streams
        encl, encmeta = [], []
        for meth, size, lmin, lmax in (("lzs", 2048, 2, 17), ("lz5", 4096, 3, 18)):
            # every ring position x {min, max} length after a short literal prefix
            step = 1 if (not ctx.quick) else 1
            for p in range(0, size, step):
                for ln in (lmin, lmax):
                    pre = "L41,L42,L43"
                    pad = ",".join(str(rnd.randrange(2)) for _ in range(8))
                    encl.append("enc %s %s,C%d:%d %s" % (meth, pre, p, ln, pad))
                    encmeta.append((meth, "pos"))
            nr = 400 if ctx.quick else 8000
            for i in range(nr):
                n = rnd.choice([1, 2, 7, 8, 9, 15, 16, 17, rnd.randrange(1, 60), rnd.randrange(1, 600)])
                cmds = decgen.rand_acmds(rnd, n, size, lmin, lmax)
                pad = ",".join(str(rnd.randrange(2)) for _ in range(8))
                encl.append("enc %s %s %s" % (meth, cmds, pad))
                encmeta.append((meth, "rand"))
        eo = common.run_lines_parallel([ctx.model], encl)
        for (meth, kind), el, o in zip(encmeta, encl, eo):
            parts = o.split()
            if len(parts) != 4 or parts[3] != "1":
                mism.append({"case": el, "model": o, "note": "spec encoder rejected its own command list"})
                continue
            stream = common.unhex(parts[0])
            n = int(parts[1])
            padb = bytes(rnd.randrange(256) for _ in range(rnd.choice([0, 0, 1, 5])))
            reads = rnd.choice(decgen.read_schedules(rnd, n))
            lines.append(decgen.case("-%s-" % meth, stream + padb, decgen.chunkings(rnd) if meth == "lzs" else rnd.choice(["-", "-", "1000", "5000"]),
                                     n, reads, rnd.choice([-1, 0])))
            expect.append((parts[2], n))
            dist[meth + "_enc"] += 1
            if kind == "pos":
                dist["exhaustive_pos"] += 1
            # a cut version (mid-command): correspondence only
            if kind == "rand" and len(stream) > 2 and rnd.random() < 0.3:
                cut = stream[:rnd.randrange(1, len(stream))]
                lines.append(decgen.case("-%s-" % meth, cut, "-", n, "%d" % (n + 3), -1, rnd.choice([0, 170, 255])))
                expect.append(None)
                dist["cut"] += 1

        co, mo = decgen.compare(ctx, cexe, lines)
        seen = set()
        nontriv = 0
        for ln, ex, c, m in zip(lines, expect, co, mo):
            hk = hashlib.md5(ln.encode()).digest()
            first = hk not in seen
            seen.add(hk)
            pc = decgen.parse(c)
            if ex is not None:
                if pc.get("h") != ex[0] or pc.get("len") != str(ex[1]):
                    viol.append({"property": PID, "kind": "decode-differs-from-denotation", "case": ln,
                                 "observed": c[:300], "expected_hash": ex[0], "expected_len": ex[1],
                                 "sig": "decode:" + ln.split()[1]})
                    continue
                if first and ex[1] > 0:
                    nontriv += 1
            if c != m:
                mism.append({"case": ln[:2000], "c": c[:300], "model": m[:300]})
        cov = {"evaluations": len(lines), "distinct_nontrivial": nontriv,
               "rule": "stored: random data/declared length/read schedules; lzs/lz5: streams from the extracted spec encoder "
                       "(every ring position x {min,max} copy length after a literal prefix = exhaustive in the position; random "
                       "command lists; random unused flag bits; trailing garbage), expected output = extracted ring_expand; "
                       "cut streams compared model-vs-C only. non-trivial = distinct case whose expected output is non-empty",
               "distribution": dist, "samples": [l[:200] for l in lines[:2]] + [encl[0], encl[-1][:200]]}
        return {"violations": viol[:10], "mismatches": mism[:10], "coverage": cov,
                "search_note": "direct oracle: C output hash vs extracted spec expansion on every encoder-made case"}
    finally:
        cb.close()


def replay(payload):
    cb = CBuild(PID)
    try:
        cexe = build(cb)
        out = common.run_lines_parallel([cexe], [payload["case"]])
        print("case:", payload["case"][:300])
        print("observed:", out[0][:300])
        print("expected hash/len:", payload.get("expected_hash"), payload.get("expected_len"))
        pc = decgen.parse(out[0])
        bad = pc.get("h") != payload.get("expected_hash")
        print("REPRODUCED" if bad else "not reproduced")
        return 1 if bad else 0
    finally:
        cb.close()

"""C17 -- the checksum routine is CRC-16/ARC for every buffer and split."""
import os, random, hashlib
import common
from common import CBuild, run_lines_parallel, hexs

PID = "C17"
TRUSTED = ["C driver harness/c/drv_crc.c; Python bitwise CRC used as independent oracle"]
ASSUMPTIONS = ["bytes are 0..255 and the state is a uint16_t (as the C types guarantee)"]


def py_crc(c, bs):
    for b in bs:
        c ^= b
        for _ in range(8):
            c = (c >> 1) ^ 0xA001 if c & 1 else c >> 1
    return c


def gen_cases(ctx):
    rnd = random.Random(ctx.seed * 7919 + 17)
    lines, meta = [], []
    nbuf = 3000 if ctx.quick else 60000
    lens = [0, 1, 2, 3, 7, 8, 9, 15, 16, 17, 255, 256, 257, 1023, 1024, 4095, 4096]
    # lengths around the widths a narrower loop counter could have (uint8/uint16 wrap)
    big = [65535, 65536, 65537, 70001, 131071, 131072, 131073, 200003]
    for i in range(nbuf):
        if i < len(big) * (1 if ctx.quick else 4):
            n = big[i % len(big)]
        elif i < len(lens) * 4:
            n = lens[i % len(lens)]
        else:
            n = rnd.choice([rnd.randrange(0, 20), rnd.randrange(0, 300), rnd.randrange(0, 4097)])
        kind = rnd.randrange(5)
        if kind == 4:
            # runs of one byte value (0, 0xff, any) of every length class after and between arbitrary pieces: a
            # data-dependent shortcut (sparse / repeated data) would show here and nowhere in uniform data
            out = bytearray()
            while len(out) < n:
                if rnd.random() < 0.5:
                    out += bytes([rnd.choice([0, 0, 0, 0xff, rnd.randrange(256)])]) * rnd.choice(
                        [1, 2, 3, 4, 7, 8, 9, 15, 16, 17, 31, 32, 33, 63, 64, 65, 127, 128, 129, 255, 256, 257, 600])
                else:
                    out += bytes(rnd.randrange(256) for _ in range(rnd.choice([1, 1, 2, 5, 30])))
            bs = bytes(out[:n]) if rnd.random() < 0.5 else bytes(out)
            n = len(bs)
        elif kind == 0:
            bs = bytes(rnd.randrange(256) for _ in range(n))
        elif kind == 1:
            bs = bytes([rnd.choice([0, 0xff, 0x80, 1])] * n)
        elif kind == 2:
            bs = bytes((j * 37 + i) & 0xff for j in range(n))
        else:
            bs = bytes(rnd.choice([0, 1, 0xa0, 0x01, 0xc0, 0xc1, 0xff]) for _ in range(n))
        init = rnd.choice([0, 0, 0xffff, 1, 0x8000, rnd.randrange(65536)])
        k = rnd.randrange(0, 6)
        pieces = []
        rem = n
        for _ in range(k):
            p = rnd.choice([0, 0, 1, rnd.randrange(0, rem + 1)]) if rem else 0
            pieces.append(p)
            rem -= p
        lines.append("crc %d %s %s" % (init, hexs(bs), ",".join(map(str, pieces)) if pieces else "-"))
        meta.append((init, bs, pieces))
    return lines, meta


def gen_extra(ctx):
    """C-only cases: crcx <align> <init> <hex> <pieces> and crcalias <k> <hex>"""
    rnd = random.Random(ctx.seed * 104729 + 1717)
    lines, meta = [], []

    def add(al, n, pieces=None):
        bs = bytes(rnd.randrange(256) for _ in range(n)) if n < 5000 else rnd.randbytes(n)
        init = rnd.choice([0, 0xffff, rnd.randrange(65536)])
        if pieces is None:
            pieces, rem = [], n
            for _ in range(rnd.randrange(0, 4)):
                p = rnd.randrange(0, rem + 1) if rem else 0
                pieces.append(p)
                rem -= p
        lines.append("crcx %d %d %s %s" % (al, init, hexs(bs), ",".join(map(str, pieces)) if pieces else "-"))
        meta.append((init, bs))
    for n in range(0, 97):
        for al in list(range(16)) + [16 + (n * 7 + j * 13) % 48 for j in range(2)]:
            add(al, n)
    for n in [4097, 4099, 5000, 6001, 8191, 8192, 8193, 12289, 16383, 16384, 16385, 20011, 32767, 32768, 32769, 40000, 50001, 65533, 65534]:
        add(rnd.randrange(64), n)
    for base in (8192 + 64 * rnd.randrange(1, 60), 65536 + 64 * rnd.randrange(1, 40)):
        for r in range(64):
            n = base + r
            # pieces whose lengths run through the residues as well
            p1 = 8192 + 64 * rnd.randrange(0, 3) + (r * 5 + 3) % 64 if n > 20000 else (r * 3) % 64
            add((r * 11) % 64, n, [min(p1, n)])
    for _ in range(60 if ctx.quick else 600):
        n = rnd.choice([2, 3, 4, 8, 9, 16, 33, 64, 100, 257, 1000])
        k = 2 * rnd.randrange(0, (n - 2) // 2 + 1)
        bs = bytes(rnd.randrange(256) for _ in range(n))
        lines.append("crcalias %d %s" % (k, hexs(bs)))
        meta.append((None, bs))
    return lines, meta


def run(ctx):
    cb = CBuild(PID)
    viol, mism = [], []
    try:
        cexe = cb.compile("drv_crc", [os.path.join(common.CDIR, "drv_crc.c"), os.path.join(common.REPO, "lib/crc16.c")])
        # (a) every state x byte values: quick 8 byte values, thorough all 256
        bvals = [0, 1, 0x80, 0xff, 0xa0, 0x5a, 0xc1, ctx.seed % 256] if ctx.quick else list(range(256))
        sl = ["crcstates %d" % b for b in bvals]
        co = run_lines_parallel([cexe], sl)
        mo = run_lines_parallel([ctx.model], sl)
        nstate = 0
        for b, c, m in zip(bvals, co, mo):
            nstate += 65536
            mm = m.split()
            if c.split()[0] != mm[0] or c.split()[0] != mm[1]:
                # locate the state
                found = None
                single = ["crc %d %02x -" % (s, b) for s in range(65536)]
                cs = run_lines_parallel([cexe], single)
                for s in range(65536):
                    exp = py_crc(s, [b])
                    if cs[s].split()[0] != "%04x" % exp:
                        found = (s, cs[s].split()[0], "%04x" % exp)
                        break
                if found:
                    viol.append({"property": PID, "kind": "crc-step", "state": found[0], "byte": b,
                                 "observed": found[1], "expected_bitwise": found[2],
                                 "how_to_replay": "./check --replay <this file>",
                                 "case": "crc %d %02x -" % (found[0], b)})
                else:
                    mism.append({"case": "crcstates %d" % b, "c": c, "model": m})
        # (b) buffers and splits
        lines, meta = gen_cases(ctx)
        co = run_lines_parallel([cexe], lines)
        mo = run_lines_parallel([ctx.model], lines)
        distinct = set()
        nontriv = 0
        for ln, (init, bs, pieces), c, m in zip(lines, meta, co, mo):
            h = hashlib.md5(ln.encode()).hexdigest()
            if h not in distinct:
                distinct.add(h)
                if len(bs) >= 2:
                    nontriv += 1
            exp = "%04x" % py_crc(init, bs)
            cc = c.split()
            mm = m.split()
            if len(cc) != 2 or cc[0] != exp or cc[1] != exp:
                viol.append({"property": PID, "kind": "crc-buffer", "case": ln, "observed": c,
                             "expected_bitwise": exp, "how_to_replay": "./check --replay <this file>"})
            elif mm[:2] != cc or mm[2] != exp:
                mism.append({"case": ln, "c": c, "model": m})
        # (c) lengths x alignments x residues, and a state variable that lies inside the buffer (C against the bitwise
        #     reference only; the buffer ends flush with its allocation, so a word-wise over-read is a sanitizer report)
        xl, xmeta = gen_extra(ctx)
        xo = run_lines_parallel([cexe], xl)
        for ln, (init, bs), c in zip(xl, xmeta, xo):
            cc = c.split()
            if init is None:            # crcalias: the driver reports the initial state it found in the buffer
                ok = len(cc) == 2 and len(cc[0]) == 4 and cc[1] == "%04x" % py_crc(int(cc[0], 16), bs)
                exp = "CRC of the bytes present at the call, from the state stored in them"
            else:
                exp = "%04x" % py_crc(init, bs)
                ok = len(cc) == 2 and cc[0] == exp and cc[1] == exp
            if not ok:
                viol.append({"property": PID, "kind": "crc-buffer", "case": ln, "observed": c,
                             "expected_bitwise": exp, "how_to_replay": "./check --replay <this file>"})
        lens = [len(b) for _, b, _ in meta]
        cov = {"evaluations": len(lines) + nstate + len(xl),
               "extra": "%d buffers: every length 0..96 at every start alignment 0..15 (and 16..63 in rotation), lengths in "
                        "4097..65534, every residue modulo 64 of lengths above 8192 and above 65536 with uneven pieces, and %d "
                        "calls whose state variable lies inside the buffer" % (sum(1 for i, _ in xmeta if i is not None),
                                                                             sum(1 for i, _ in xmeta if i is None)),
               "distinct_nontrivial": nontriv + nstate,
               "rule": "every 16-bit state x %d byte values (exhaustive in the state; %s), plus %d generated buffers "
                       "(length 0..4096, five content classes incl. runs of one byte value of lengths 1..600 between arbitrary pieces, 0-5 split points incl. empty pieces, 8 alignments); "
                       "a buffer case is non-trivial when it has >= 2 bytes; distinct by hash of the case line"
                       % (len(bvals), "all 2^24 pairs" if not ctx.quick else "8 byte values", len(lines)),
               "exhaustive": not ctx.quick,
               "distribution": {"buffers": len(lines), "len0": lens.count(0), "len<16": sum(1 for x in lens if x < 16),
                                "len>=1024": sum(1 for x in lens if x >= 1024),
                                "with_splits": sum(1 for _, _, p in meta if p)},
               "samples": lines[:3] + sl[:1]}
        return {"violations": viol[:10], "mismatches": mism[:10], "coverage": cov,
                "search_note": "direct oracle: Python bitwise CRC-16/ARC on all cases of this run"}
    finally:
        cb.close()


def replay(payload):
    cb = CBuild(PID)
    try:
        cexe = cb.compile("drv_crc", [os.path.join(common.CDIR, "drv_crc.c"), os.path.join(common.REPO, "lib/crc16.c")])
        out, rc, err = common.run_lines([cexe], [payload["case"]])
        print("case:", payload["case"][:300])
        print("observed:", out, "expected:", payload.get("expected_bitwise"))
        if payload["case"].startswith("crcalias"):
            bs = bytes.fromhex(payload["case"].split()[2])
            cc = out[0].split() if out else []
            ok = len(cc) == 2 and len(cc[0]) == 4 and cc[1] == "%04x" % py_crc(int(cc[0], 16), bs)
        else:
            ok = out and all(x == payload.get("expected_bitwise") for x in out[0].split())
        print("REPRODUCED" if not ok else "not reproduced")
        return 1 if not ok else 0
    finally:
        cb.close()

"""C17 -- the checksum routine is CRC-16/ARC for every buffer and split."""
import os, random, hashlib
import common
from common import CBuild, run_lines_parallel, hexs

PID = "C17"
TRUSTED = ["C driver harness/c/drv_crc.c; Python bitwise CRC used as independent oracle"]
ASSUMPTIONS = ["bytes are 0..255 and the state is a uint16_t (as the C types guarantee)"]


def py_crc(c, bs):
    for b in bs:
        c ^= b
        for _ in range(8):
            c = (c >> 1) ^ 0xA001 if c & 1 else c >> 1
    return c


_PY_TABLE = None


def py_crc_long(c, bs):
    """the same function for long buffers: byte-wise through a table that is itself computed from the bitwise definition
    (py_crc of the one-byte strings), and cross-checked against py_crc on a prefix"""
    global _PY_TABLE
    if _PY_TABLE is None:
        _PY_TABLE = [py_crc(0, bytes([i])) for i in range(256)]
    t = _PY_TABLE
    c0 = c
    for b in bs:
        c = (c >> 8) ^ t[(c ^ b) & 0xff]
    assert py_crc(c0, bs[:300]) == py_crc_long_prefix(c0, bs[:300], t)
    return c


def py_crc_long_prefix(c, bs, t):
    for b in bs:
        c = (c >> 8) ^ t[(c ^ b) & 0xff]
    return c


def gen_more(ctx):
    """C-only cases (own random stream):
    big  -- crcx lines with buffers of 2^18 .. 2^22 bytes (+1, +3, ...), whole and with one piece above 2^18: a separate path for
            large buffers (block-wise processing, a wider or narrower counter) is entered only there;
    seq  -- crcseq lines: the same buffer and the same state variable used for several calls in a row with other contents / other
            initial states of the same length: a result remembered from an earlier call must not leak into a later one."""
    rnd = random.Random(ctx.seed * 15485863 + 171717)
    lines, meta = [], []
    bigs = [2 ** 18, 2 ** 18 + 1, 2 ** 19 + 5, 2 ** 20, 2 ** 20 + 1, 2 ** 21 + 3] + ([] if ctx.quick else [2 ** 22 + 1, 2 ** 24 + 1, 2 ** 24 + 65536])
    bigs.append(rnd.randrange(2 ** 18, 2 ** 21))
    for n in bigs:
        bs = rnd.randbytes(n)
        init = rnd.choice([0, 0xffff, rnd.randrange(65536)])
        pieces = rnd.choice([[], [n // 2 + 1 + rnd.randrange(100)], [rnd.randrange(1, 70000), 2 ** 18 + rnd.randrange(0, 64)]])
        lines.append("crcx %d %d %s %s" % (rnd.randrange(64), init, hexs(bs), ",".join(map(str, pieces)) if pieces else "-"))
        meta.append(("big", init, bs))
    for blen in [1, 2, 3, 15, 16, 17, 63, 64, 65, 100, 127, 128, 129, 255, 256, 512, 1000, 1023, 1024, 1025, 2048, 4095, 4096, 4097,
                 8192, 8193, 16384, 65535, 65536, 70000]:
        for rep in range(2 if blen <= 8193 else 1):
            k = rnd.choice([3, 4, 5])
            chunks, inits = [], []
            for j in range(k):
                r = rnd.random()
                if j and r < 0.2:
                    chunks.append(chunks[rnd.randrange(j)])          # the same contents again
                elif j and r < 0.45 and blen > 2:
                    c = bytearray(chunks[-1])                          # one byte differs (first / last / anywhere)
                    q = rnd.choice([0, blen - 1, rnd.randrange(blen)])
                    c[q] ^= 1 << rnd.randrange(8)
                    chunks.append(bytes(c))
                else:
                    chunks.append(rnd.randbytes(blen))
                inits.append(inits[-1] if j and rnd.random() < 0.7 else rnd.choice([0, 0, 0xffff, rnd.randrange(65536)]))
            lines.append("crcseq %d %d %s %s" % (rnd.randrange(64), blen, ",".join(map(str, inits)), hexs(b"".join(chunks))))
            meta.append(("seq", inits, chunks))
    return lines, meta


def gen_cases(ctx):
    rnd = random.Random(ctx.seed * 7919 + 17)
    lines, meta = [], []
    nbuf = 3000 if ctx.quick else 60000
    lens = [0, 1, 2, 3, 7, 8, 9, 15, 16, 17, 255, 256, 257, 1023, 1024, 4095, 4096]
    # lengths around the widths a narrower loop counter could have (uint8/uint16 wrap)
    big = [65535, 65536, 65537, 70001, 131071, 131072, 131073, 200003]
    for i in range(nbuf):
        if i < len(big) * (1 if ctx.quick else 4):
            n = big[i % len(big)]
        elif i < len(lens) * 4:
            n = lens[i % len(lens)]
        else:
            n = rnd.choice([rnd.randrange(0, 20), rnd.randrange(0, 300), rnd.randrange(0, 4097)])
        kind = rnd.randrange(5)
        if kind == 4:
            # runs of one byte value (0, 0xff, any) of every length class after and between arbitrary pieces: a
            # data-dependent shortcut (sparse / repeated data) would show here and nowhere in uniform data
            out = bytearray()
            while len(out) < n:
                if rnd.random() < 0.5:
                    out += bytes([rnd.choice([0, 0, 0, 0xff, rnd.randrange(256)])]) * rnd.choice(
                        [1, 2, 3, 4, 7, 8, 9, 15, 16, 17, 31, 32, 33, 63, 64, 65, 127, 128, 129, 255, 256, 257, 600])
                else:
                    out += bytes(rnd.randrange(256) for _ in range(rnd.choice([1, 1, 2, 5, 30])))
            bs = bytes(out[:n]) if rnd.random() < 0.5 else bytes(out)
            n = len(bs)
        elif kind == 0:
            bs = bytes(rnd.randrange(256) for _ in range(n))
        elif kind == 1:
            bs = bytes([rnd.choice([0, 0xff, 0x80, 1])] * n)
        elif kind == 2:
            bs = bytes((j * 37 + i) & 0xff for j in range(n))
        else:
            bs = bytes(rnd.choice([0, 1, 0xa0, 0x01, 0xc0, 0xc1, 0xff]) for _ in range(n))
        init = rnd.choice([0, 0, 0xffff, 1, 0x8000, rnd.randrange(65536)])
        k = rnd.randrange(0, 6)
        pieces = []
        rem = n
        for _ in range(k):
            p = rnd.choice([0, 0, 1, rnd.randrange(0, rem + 1)]) if rem else 0
            pieces.append(p)
            rem -= p
        lines.append("crc %d %s %s" % (init, hexs(bs), ",".join(map(str, pieces)) if pieces else "-"))
        meta.append((init, bs, pieces))
    return lines, meta


def gen_extra(ctx):
    """C-only cases: crcx <align> <init> <hex> <pieces> and crcalias <k> <hex>"""
    rnd = random.Random(ctx.seed * 104729 + 1717)
    lines, meta = [], []

    def add(al, n, pieces=None):
        bs = bytes(rnd.randrange(256) for _ in range(n)) if n < 5000 else rnd.randbytes(n)
        init = rnd.choice([0, 0xffff, rnd.randrange(65536)])
        if pieces is None:
            pieces, rem = [], n
            for _ in range(rnd.randrange(0, 4)):
                p = rnd.randrange(0, rem + 1) if rem else 0
                pieces.append(p)
                rem -= p
        lines.append("crcx %d %d %s %s" % (al, init, hexs(bs), ",".join(map(str, pieces)) if pieces else "-"))
        meta.append((init, bs))
    for n in range(0, 97):
        for al in list(range(16)) + [16 + (n * 7 + j * 13) % 48 for j in range(2)]:
            add(al, n)
    for n in [4097, 4099, 5000, 6001, 8191, 8192, 8193, 12289, 16383, 16384, 16385, 20011, 32767, 32768, 32769, 40000, 50001, 65533, 65534]:
        add(rnd.randrange(64), n)
    for base in (8192 + 64 * rnd.randrange(1, 60), 65536 + 64 * rnd.randrange(1, 40)):
        for r in range(64):
            n = base + r
            # pieces whose lengths run through the residues as well
            p1 = 8192 + 64 * rnd.randrange(0, 3) + (r * 5 + 3) % 64 if n > 20000 else (r * 3) % 64
            add((r * 11) % 64, n, [min(p1, n)])
    for _ in range(60 if ctx.quick else 600):
        n = rnd.choice([2, 3, 4, 8, 9, 16, 33, 64, 100, 257, 1000])
        k = 2 * rnd.randrange(0, (n - 2) // 2 + 1)
        bs = bytes(rnd.randrange(256) for _ in range(n))
        lines.append("crcalias %d %s" % (k, hexs(bs)))
        meta.append((None, bs))
    return lines, meta


def run(ctx):
    cb = CBuild(PID)
    viol, mism = [], []
    try:
        cexe = cb.compile("drv_crc", [os.path.join(common.CDIR, "drv_crc.c"), os.path.join(common.REPO, "lib/crc16.c")])
        # (a) every state x byte values: quick 8 byte values, thorough all 256
        bvals = [0, 1, 0x80, 0xff, 0xa0, 0x5a, 0xc1, ctx.seed % 256] if ctx.quick else list(range(256))
        sl = ["crcstates %d" % b for b in bvals]
        co = run_lines_parallel([cexe], sl)
        mo = run_lines_parallel([ctx.model], sl)
        nstate = 0
        for b, c, m in zip(bvals, co, mo):
            nstate += 65536
            mm = m.split()
            if c.split()[0] != mm[0] or c.split()[0] != mm[1]:
                # locate the state
                found = None
                single = ["crc %d %02x -" % (s, b) for s in range(65536)]
                cs = run_lines_parallel([cexe], single)
                for s in range(65536):
                    exp = py_crc(s, [b])
                    if cs[s].split()[0] != "%04x" % exp:
                        found = (s, cs[s].split()[0], "%04x" % exp)
                        break
                if found:
                    viol.append({"property": PID, "kind": "crc-step", "state": found[0], "byte": b,
                                 "observed": found[1], "expected_bitwise": found[2],
                                 "how_to_replay": "./check --replay <this file>",
                                 "case": "crc %d %02x -" % (found[0], b)})
                else:
                    mism.append({"case": "crcstates %d" % b, "c": c, "model": m})
        # (b) buffers and splits
        lines, meta = gen_cases(ctx)
        co = run_lines_parallel([cexe], lines)
        mo = run_lines_parallel([ctx.model], lines)
        distinct = set()
        nontriv = 0
        for ln, (init, bs, pieces), c, m in zip(lines, meta, co, mo):
            h = hashlib.md5(ln.encode()).hexdigest()
            if h not in distinct:
                distinct.add(h)
                if len(bs) >= 2:
                    nontriv += 1
            exp = "%04x" % py_crc(init, bs)
            cc = c.split()
            mm = m.split()
            if len(cc) != 2 or cc[0] != exp or cc[1] != exp:
                viol.append({"property": PID, "kind": "crc-buffer", "case": ln, "observed": c,
                             "expected_bitwise": exp, "how_to_replay": "./check --replay <this file>"})
            elif mm[:2] != cc or mm[2] != exp:
                mism.append({"case": ln, "c": c, "model": m})
        # (c) lengths x alignments x residues, and a state variable that lies inside the buffer (C against the bitwise
        #     reference only; the buffer ends flush with its allocation, so a word-wise over-read is a sanitizer report)
        xl, xmeta = gen_extra(ctx)
        xo = run_lines_parallel([cexe], xl)
        for ln, (init, bs), c in zip(xl, xmeta, xo):
            cc = c.split()
            if init is None:            # crcalias: the driver reports the initial state it found in the buffer
                ok = len(cc) == 2 and len(cc[0]) == 4 and cc[1] == "%04x" % py_crc(int(cc[0], 16), bs)
                exp = "CRC of the bytes present at the call, from the state stored in them"
            else:
                exp = "%04x" % py_crc(init, bs)
                ok = len(cc) == 2 and cc[0] == exp and cc[1] == exp
            if not ok:
                viol.append({"property": PID, "kind": "crc-buffer", "case": ln, "observed": c,
                             "expected_bitwise": exp, "how_to_replay": "./check --replay <this file>"})
        # (d) buffers of 2^18 .. 2^22 bytes, and one buffer / one state variable used for several calls in a row
        gl, gmeta = gen_more(ctx)
        go = run_lines_parallel([cexe], gl)
        for ln, mt, c in zip(gl, gmeta, go):
            cc = c.split()
            if mt[0] == "big":
                exp = "%04x" % py_crc_long(mt[1], mt[2])
                ok = len(cc) == 2 and cc[0] == exp and cc[1] == exp
            else:
                exp = " ".join("%04x" % py_crc(i_, ch) if len(ch) < 5000 else "%04x" % py_crc_long(i_, ch) for i_, ch in zip(mt[1], mt[2]))
                ok = c.strip() == exp
            if not ok:
                viol.append({"property": PID, "kind": "crc-buffer", "case": ln, "observed": c[:200],
                             "expected_bitwise": exp, "how_to_replay": "./check --replay <this file>"})
        lens = [len(b) for _, b, _ in meta]
        cov = {"evaluations": len(lines) + nstate + len(xl) + len(gl),
               "extra2": "%d buffers of 2^18 .. 2^22 bytes (whole and with a piece above 2^18), %d sequences of 3-5 calls on one buffer and one "
                         "state variable with other contents / initial states of the same length (1 .. 70000 bytes)"
                         % (sum(1 for m_ in gmeta if m_[0] == "big"), sum(1 for m_ in gmeta if m_[0] == "seq")),
               "extra": "%d buffers: every length 0..96 at every start alignment 0..15 (and 16..63 in rotation), lengths in "
                        "4097..65534, every residue modulo 64 of lengths above 8192 and above 65536 with uneven pieces, and %d "
                        "calls whose state variable lies inside the buffer" % (sum(1 for i, _ in xmeta if i is not None),
                                                                             sum(1 for i, _ in xmeta if i is None)),
               "distinct_nontrivial": nontriv + nstate,
               "rule": "every 16-bit state x %d byte values (exhaustive in the state; %s), plus %d generated buffers "
                       "(length 0..4096, five content classes incl. runs of one byte value of lengths 1..600 between arbitrary pieces, 0-5 split points incl. empty pieces, 8 alignments); "
                       "a buffer case is non-trivial when it has >= 2 bytes; distinct by hash of the case line"
                       % (len(bvals), "all 2^24 pairs" if not ctx.quick else "8 byte values", len(lines)),
               "exhaustive": not ctx.quick,
               "distribution": {"buffers": len(lines), "len0": lens.count(0), "len<16": sum(1 for x in lens if x < 16),
                                "len>=1024": sum(1 for x in lens if x >= 1024),
                                "with_splits": sum(1 for _, _, p in meta if p)},
               "samples": lines[:3] + sl[:1]}
        return {"violations": viol[:10], "mismatches": mism[:10], "coverage": cov,
                "search_note": "direct oracle: Python bitwise CRC-16/ARC on all cases of this run"}
    finally:
        cb.close()


def replay(payload):
    cb = CBuild(PID)
    try:
        cexe = cb.compile("drv_crc", [os.path.join(common.CDIR, "drv_crc.c"), os.path.join(common.REPO, "lib/crc16.c")])
        out, rc, err = common.run_lines([cexe], [payload["case"]])
        print("case:", payload["case"][:300])
        print("observed:", out, "expected:", payload.get("expected_bitwise"))
        if payload["case"].startswith("crcseq"):
            ok = out and out[0].strip() == payload.get("expected_bitwise")
        elif payload["case"].startswith("crcalias"):
            bs = bytes.fromhex(payload["case"].split()[2])
            cc = out[0].split() if out else []
            ok = len(cc) == 2 and len(cc[0]) == 4 and cc[1] == "%04x" % py_crc(int(cc[0], 16), bs)
        else:
            ok = out and all(x == payload.get("expected_bitwise") for x in out[0].split())
        print("REPRODUCED" if not ok else "not reproduced")
        return 1 if not ok else 0
    finally:
        cb.close()

"""C01 -- LHA static-Huffman methods (lh4/5/6/7/x, lk7) decode every valid stream exactly."""
import os, random, hashlib, collections, types
import common, decgen
from common import CBuild
import test_enc_lhnew as gen

PID = "C01"
TRUSTED = ["spec S_LhNew.v (LZ77 semantics, canonical codes, stream descriptions, serialiser) run extracted",
           "C driver harness/c/drv_dec.c"]
ASSUMPTIONS = ["valid stream = serialise_stream of a description that satisfies wf_stream",
               "theorem lhnew_roundtrip (all six instances, any block partition / table form / read schedule) is about the model "
               "LhNew.v; the tie to the C is this run's correspondence (C output = spec expansion = model output) and the regenerated "
               "per-decoder constants; model fuel bounds the input at 2^27 bytes"]


def build(cb):
    return cb.compile("drv_dec", [os.path.join(common.CDIR, "drv_dec.c")] + cb.lib_sources())


def run(ctx):
    rnd = random.Random(ctx.seed * 49979687 + 1)
    cb = CBuild(PID)
    viol, mism = [], []
    dist = collections.Counter()
    try:
        cexe = build(cb)
        enc_lines, meta = [], []
        for v in [gen.V(t) for t in gen.VARIANTS]:
            cases = gen.gen_cases(rnd, v, ctx.quick)
            if ctx.quick:
                # keep the heavy ones (65535-command blocks, ring wrap) for one rotating method only
                heavy = [c for c in cases if c[0].startswith("auto-")]
                light = [c for c in cases if not c[0].startswith("auto-")]
                rnd.shuffle(light)
                cases = light[:55] + (heavy if (ctx.seed + hash(v.name)) % 6 == 0 else heavy[:0])
            for tag, line in cases:
                enc_lines.append(line)
                meta.append((v, tag))
        eo = common.run_lines_parallel([ctx.model], enc_lines, timeout=1800)
        lines, expect, tags = [], [], []
        for (v, tag), el, o in zip(meta, enc_lines, eo):
            parts = o.split()
            if len(parts) != 4 or parts[3] != "1":
                mism.append({"case": el[:2000], "model": o[:300], "note": "spec encoder rejected a generated description"})
                continue
            n = int(parts[1])
            stream = common.unhex(parts[0])
            pad = bytes(rnd.randrange(256) for _ in range(rnd.choice([0, 0, 2, 9])))
            reads = rnd.choice(decgen.read_schedules(rnd, n)) if n < 300000 else "%d" % (n + 5)
            lines.append(decgen.case(v.method, stream + pad, rnd.choice(["-", "-", "1", "3", "4096"]), n, reads, rnd.choice([-1, 0])))
            expect.append((parts[2], n))
            tags.append(tag)
            dist[v.method + ":" + tag.split("-")[0]] += 1
        co = common.run_lines_parallel([cexe], lines, timeout=1800)
        # the model decoder is slow on the megabyte cases: compare it on outputs up to 300 KB
        small = [i for i, e in enumerate(expect) if e[1] <= 300000]
        mo_part = common.run_lines_parallel([ctx.model], [lines[i] for i in small], timeout=1800)
        mo = dict(zip(small, mo_part))
        nontriv = 0
        seen = set()
        for i, (ln, ex, c) in enumerate(zip(lines, expect, co)):
            pc = decgen.parse(c)
            hk = hashlib.md5(ln.encode()).digest()
            if hk not in seen:
                seen.add(hk)
                if ex[1] > 0:
                    nontriv += 1
            if pc.get("h") != ex[0] or pc.get("len") != str(ex[1]):
                viol.append({"property": PID, "kind": "decode-differs-from-denotation", "case": ln[:200000],
                             "observed": c[:300], "expected_hash": ex[0], "expected_len": ex[1], "shape": tags[i],
                             "sig": "decode:" + ln.split()[1]})
                continue
            if i in mo and mo[i] != c:
                mism.append({"case": ln[:3000], "c": c[:300], "model": mo[i][:300]})
        cov = {"evaluations": len(lines), "distinct_nontrivial": nontriv,
               "rule": "six methods: stream descriptions built automatically from random command lists (distances 0, 1, |out|-1, |out|, "
                       "beyond |out| into the space pre-fill, window-1; lengths at both ends; blocks of 1 .. 65535 commands; output longer "
                       "than the window) and explicit descriptions (single-symbol temp/code/offset tables, 16- and 28-bit codewords, every "
                       "zero-run class at both ends, temp skip 0..3, unary-extended lengths), serialised by the extracted spec; the C decoder's "
                       "output must equal the spec's LZ77 expansion; model decoder compared too. non-trivial = distinct case with output",
               "distribution": dict(dist), "samples": [l[:160] for l in enc_lines[:3]]}
        return {"violations": viol[:10], "mismatches": mism[:10], "coverage": cov,
                "search_note": "direct oracle: C output hash vs extracted lz77_expand on every encoder-made stream"}
    finally:
        cb.close()


def replay(payload):
    cb = CBuild(PID)
    try:
        cexe = build(cb)
        out = common.run_lines_parallel([cexe], [payload["case"]])
        print("observed:", out[0][:300]); print("expected hash/len:", payload.get("expected_hash"), payload.get("expected_len"))
        bad = decgen.parse(out[0]).get("h") != payload.get("expected_hash")
        print("REPRODUCED" if bad else "not reproduced")
        return 1 if bad else 0
    finally:
        cb.close()

"""C01 -- LHA static-Huffman methods (lh4/5/6/7/x, lk7) decode every valid stream exactly."""
import os, random, hashlib, collections, types
import common, decgen
from common import CBuild
import test_enc_lhnew as gen

PID = "C01"
TRUSTED = ["spec S_LhNew.v (LZ77 semantics, canonical codes, stream descriptions, serialiser) run extracted",
           "C driver harness/c/drv_dec.c"]
ASSUMPTIONS = ["valid stream = serialise_stream of a description that satisfies wf_stream",
               "theorem lhnew_roundtrip (all six instances, any block partition / table form / read schedule) is about the model "
               "LhNew.v; the tie to the C is this run's correspondence (C output = spec expansion = model output) and the regenerated "
               "per-decoder constants; model fuel bounds the input at 2^27 bytes"]


def build(cb):
    return cb.compile("drv_dec", [os.path.join(common.CDIR, "drv_dec.c")] + cb.lib_sources())


def small_temp_cases(rnd, v):
    """Directed family (audit round): temp tables with 2..5 entries, every value of the 2-bit skip field after the third
    entry -- also when the skipped entries reach past the count field (n = 3 with skip 1..3, n = 4 with skip 2..3,
    n = 5 with skip 3: only the zero-run symbols 0..2 can then have a length, so the code table is in its single-symbol
    form and the temp table is sent but not used) -- followed by a second, ordinary block, so that a decoder that
    mis-sizes or rejects such a temp table either loses its place in the bit stream or stops.  All descriptions satisfy
    wf_temp of S_LhNew.v (complete code over the sent lengths, skip <= 3, skip = 0 when n < 3)."""
    res = []
    first3 = [(1, 1, 0), (1, 0, 1), (0, 1, 1), (1, 2, 2), (2, 1, 2), (2, 2, 1)]
    cp = gen.len_sym(v, v.lmin)
    forms = [(2, 0, None)]
    for n in (3, 4, 5):
        for skip in (0, 1, 2, 3):
            forms.append((n, skip, None))
    for (n, skip, _) in forms:
        for lens in ([(1, 1)] if n == 2 else rnd.sample(first3, 2)):
            expl = list(lens)
            if n >= 3:
                expl += [0] * max(0, n - 3 - skip)          # entries after the skipped ones: unused
            temp = "T%d:%d:%s" % (n, skip, ",".join(map(str, expl)))
            if rnd.random() < 0.5:
                b = rnd.randrange(256)
                code, cmds = "S%d" % b, [('L', b)] * rnd.choice([1, 3, 9])
                off = "S%d" % rnd.randrange(1 << v.ob)
            else:
                d = rnd.choice([0, 1, 2, 3])
                code, cmds = "S%d" % cp, [('C', d, v.lmin, False)] * rnd.choice([1, 2, 5])
                off = "S%d" % gen.dist_sym(v, d)
            blk1 = "%s;%s;%s;%s" % (temp, code, off, gen.cmds_str(cmds))
            tail = gen.rand_cmds(rnd, v, rnd.choice([1, 4, 12]), max_out=2000, short=True)
            res.append(("tempsmall-n%d-skip%d" % (n, skip), "lhnewx %s %s/%s" % (v.name, blk1, gen.rand_block(rnd, v, tail))))
    # small temp tables that ARE used: code lengths 1 (temp symbol 3, n = 4) and 2 (temp symbol 4, n = 5, skip 0 and 1)
    lit = lambda b: ('L', b)
    res.append(("tempsmall-used-n4", "lhnewx %s T4:0:1,0,0,1;K4:l1,z,z,l1;S0;%s" % (v.name, gen.cmds_str([lit(0), lit(3), lit(3), lit(0)]))))
    res.append(("tempsmall-used-n5-skip1", "lhnewx %s T5:1:1,0,0,1;K6:l2,l2,z,l2,z,l2;S0;%s"
                % (v.name, gen.cmds_str([lit(5), lit(0), lit(1), lit(3), lit(5)]))))
    res.append(("tempsmall-used-n5-skip0", "lhnewx %s T5:0:0,1,0,0,1;K22:l2,l2,s18,l2,l2;S0;%s"
                % (v.name, gen.cmds_str([lit(21), lit(0), lit(1), lit(20)]))))
    return res


def run(ctx):
    rnd = random.Random(ctx.seed * 49979687 + 1)
    rnd_dir = random.Random(ctx.seed * 7919 + 101)      # for the directed families: leaves the other cases as they were
    cb = CBuild(PID)
    viol, mism = [], []
    dist = collections.Counter()
    try:
        cexe = build(cb)
        enc_lines, meta = [], []
        dropped_shapes = {}
        for v in [gen.V(t) for t in gen.VARIANTS]:
            cases = gen.gen_cases(rnd, v, ctx.quick)
            if ctx.quick:
                # keep the heavy ones (65535-command blocks, ring wrap) for one rotating method only
                heavy = [c for c in cases if c[0].startswith("auto-")]
                light = [c for c in cases if not c[0].startswith("auto-")]
                rnd.shuffle(light)
                dropped_shapes[v.name] = [c for c in light[55:] if not c[0].startswith(("auto", "explicit")) and len(c[1]) < 20000]
                cases = light[:55] + (heavy if (ctx.seed + [t[0] for t in gen.VARIANTS].index(v.name)) % 6 == 0 else heavy[:0])   # (was hash(v.name): salted per process, so a run could not be repeated)
            for tag, line in cases:
                enc_lines.append(line)
                meta.append((v, tag))
        for v in [gen.V(t) for t in gen.VARIANTS]:
            # directed families of the audit round: always run, both tiers, after the other cases (so that those are
            # generated exactly as before)
            for tag, line in small_temp_cases(rnd_dir, v):
                enc_lines.append(line)
                meta.append((v, tag))
            # quick tier: the hand-picked table shapes that the random prefix of 55 left out (they are small; about two
            # thirds of them were dropped per method and seed)
            for tag, line in dropped_shapes.get(v.name, []):
                enc_lines.append(line)
                meta.append((v, tag))
        eo = common.run_lines_parallel([ctx.model], enc_lines, timeout=1800)
        lines, expect, tags = [], [], []
        for (v, tag), el, o in zip(meta, enc_lines, eo):
            parts = o.split()
            if len(parts) != 4 or parts[3] != "1":
                mism.append({"case": el[:2000], "model": o[:300], "note": "spec encoder rejected a generated description"})
                continue
            n = int(parts[1])
            stream = common.unhex(parts[0])
            pad = bytes(rnd.randrange(256) for _ in range(rnd.choice([0, 0, 2, 9])))
            reads = rnd.choice(decgen.read_schedules(rnd, n)) if n < 300000 else "%d" % (n + 5)
            lines.append(decgen.case(v.method, stream + pad, rnd.choice(["-", "-", "1", "3", "4096"]), n, reads, rnd.choice([-1, 0])))
            expect.append((parts[2], n))
            tags.append(tag)
            dist[v.method + ":" + tag.split("-")[0]] += 1
        co = common.run_lines_parallel([cexe], lines, timeout=1800)
        # the model decoder is slow on the megabyte cases: compare it on outputs up to 300 KB
        small = [i for i, e in enumerate(expect) if e[1] <= 300000]
        mo_part = common.run_lines_parallel([ctx.model], [lines[i] for i in small], timeout=1800)
        mo = dict(zip(small, mo_part))
        nontriv = 0
        seen = set()
        for i, (ln, ex, c) in enumerate(zip(lines, expect, co)):
            pc = decgen.parse(c)
            hk = hashlib.md5(ln.encode()).digest()
            if hk not in seen:
                seen.add(hk)
                if ex[1] > 0:
                    nontriv += 1
            if pc.get("h") != ex[0] or pc.get("len") != str(ex[1]):
                viol.append({"property": PID, "kind": "decode-differs-from-denotation", "case": ln[:200000],
                             "observed": c[:300], "expected_hash": ex[0], "expected_len": ex[1], "shape": tags[i],
                             "sig": "decode:" + ln.split()[1]})
                continue
            if i in mo and mo[i] != c:
                mism.append({"case": ln[:3000], "c": c[:300], "model": mo[i][:300]})
        cov = {"evaluations": len(lines), "distinct_nontrivial": nontriv,
               "rule": "six methods: stream descriptions built automatically from random command lists (distances 0, 1, |out|-1, |out|, "
                       "beyond |out| into the space pre-fill, window-1; lengths at both ends; blocks of 1 .. 65535 commands; output longer "
                       "than the window) and explicit descriptions (single-symbol temp/code/offset tables, 16- and 28-bit codewords, every "
                       "zero-run class at both ends, temp skip 0..3, unary-extended lengths), serialised by the extracted spec; the C decoder's "
                       "output must equal the spec's LZ77 expansion; model decoder compared too. non-trivial = distinct case with output",
               "distribution": dict(dist), "samples": [l[:160] for l in enc_lines[:3]]}
        return {"violations": viol[:10], "mismatches": mism[:10], "coverage": cov,
                "search_note": "direct oracle: C output hash vs extracted lz77_expand on every encoder-made stream"}
    finally:
        cb.close()


def replay(payload):
    cb = CBuild(PID)
    try:
        cexe = build(cb)
        out = common.run_lines_parallel([cexe], [payload["case"]])
        print("observed:", out[0][:300]); print("expected hash/len:", payload.get("expected_hash"), payload.get("expected_len"))
        bad = decgen.parse(out[0]).get("h") != payload.get("expected_hash")
        print("REPRODUCED" if bad else "not reproduced")
        return 1 if bad else 0
    finally:
        cb.close()

#!/usr/bin/env python3
"""Differential test of coq/LhNew.v (extracted) against lib/lh_new_decoder.c as
instantiated for -lh4- -lh5- -lh6- -lh7- -lhx- -lk7- (drv_dec.c, ASan build).

Every case line
    dec <method> <hex> <cb chunks|-> <declared len> <reads> <monitor_at> <junk>
is given to both runners; the two output lines must be identical (returned
sizes, hash and prefix of the bytes, length, CRC, progress events, number of
input bytes consumed).

Usage: test_lhnew.py [--seed N] [--keep] [--no-long]
Exit 0: all cases agree.  Exit 1: some case disagrees / crashed.
"""
import os, sys, time, random, argparse
import common, seeds
from common import CBuild, CDIR, run_lines_parallel, hexs

FAMILY = ["-lh4-", "-lh5-", "-lh6-", "-lh7-", "-lhx-", "-lk7-"]
OFFSET_BITS = {"-lh4-": 4, "-lh5-": 4, "-lh6-": 5, "-lh7-": 5, "-lhx-": 5, "-lk7-": 6}
NUM_CODES = {"-lh4-": 510, "-lh5-": 510, "-lh6-": 510, "-lh7-": 510, "-lhx-": 510, "-lk7-": 289}
JUNK = 170
# Decoder.v builds the result of one lha_decoder_read with List.rev, which is
# quadratic in the size of the read: keep single reads of the model moderate
# except where a huge read is the point of the case.
HUGE_OK = 20000


def case(meth, data, chunks, declared, reads, mon):
    return "dec %s %s %s %d %s %d %d" % (meth, hexs(data), chunks, declared, reads, mon, JUNK)


def reads_fixed(total, size):
    """reads of `size` bytes covering `total` bytes and two more (to observe the end)"""
    return "%d*%d" % (size, total // size + 3)


def reads_random(rnd, total, lo, hi, zeros=True):
    out, got = [], 0
    while got <= total:
        k = rnd.choice([0, 0, 1, 2]) if zeros and rnd.random() < 0.15 else rnd.randrange(lo, hi + 1)
        out.append(str(k))
        got += k
    out += ["5", "0", "7"]
    return ",".join(out)


class BitW:
    def __init__(self):
        self.bits = []

    def put(self, n, v):
        for i in range(n - 1, -1, -1):
            self.bits.append((v >> i) & 1)

    def lenval(self, v):
        """the encoding read by read_length_value"""
        if v < 7:
            self.put(3, v)
        else:
            self.put(3, 7)
            self.bits += [1] * (v - 7) + [0]

    def rand(self, rnd, n):
        for _ in range(n):
            self.bits.append(rnd.randrange(2))

    def bytes(self, rnd=None):
        b = list(self.bits)
        while len(b) % 8:
            b.append(rnd.randrange(2) if rnd else 0)
        return bytes(int("".join(map(str, b[i:i + 8])), 2) for i in range(0, len(b), 8))


def BIGLEN(rnd):
    """length values around the uint8_t wrap of  code_lengths[i] = len  (rarely)"""
    return rnd.choice([1, 2, 3, 4, rnd.choice([255, 256, 257, 258, 259, 260, 263, 300, 513, 516])])


def gen_structured(rnd, meth):
    """Block headers that follow the syntax read by start_new_block, with the
    choices that select the rare paths (n == 0 forms, n above the clamp, long
    length values, the i == 2 skip field, skip ranges, LHARK code ranges),
    followed by random bits."""
    ob = OFFSET_BITS[meth]
    nc = NUM_CODES[meth]
    w = BitW()
    for _ in range(rnd.choice([1, 1, 2, 3])):
        w.put(16, rnd.choice([0, 1, 2, 3, rnd.randrange(0, 40), rnd.randrange(0, 65536)]))
        if rnd.randrange(3) > 0:
            # single temp code c: every read_from_tree(temp_tree) yields c using no bits
            c = rnd.choice([0, 1, 2, 3, 4, 5, 6, 10, rnd.randrange(32)])
            w.put(5, 0)
            w.put(5, c)
            n = rnd.choice([0, 0, 511, 510, 509, 289, 290, 288, 1, 2, rnd.randrange(1, 512)])
            w.put(9, n)
            if n == 0:
                w.put(9, rnd.choice([rnd.randrange(512), rnd.randrange(256, 512), 256, 257, 263, 264,
                                     265, 270, 280, 287, 288, 289, 300, 509, 510, 511, 65]))
            else:
                nn = min(n, nc)
                i = 0
                while i < nn:
                    if c == 1:
                        k = rnd.randrange(16)
                        w.put(4, k)
                        i += k + 3
                    elif c == 2:
                        k = rnd.choice([rnd.randrange(512), rnd.randrange(8)])
                        w.put(9, k)
                        i += k + 20
                    else:
                        i += 1
        else:
            n = rnd.choice([rnd.randrange(1, 32), 31, 1, 2, 3, 4, 5, 6])
            w.put(5, n)
            i = 0
            while i < n:
                w.lenval(rnd.choice([0, 0, 1, 1, 2, 2, 3, 3, 4, 5, 6, 7, 8, 9, rnd.randrange(0, 24), BIGLEN(rnd)]))
                if i == 2:
                    k = rnd.randrange(4)
                    w.put(2, k)
                    i += k
                i += 1
            # the code lengths are encoded with the tree just defined: not
            # tracked here, the rest is random
            w.put(9, rnd.choice([0, 511, rnd.randrange(512)]))
            w.rand(rnd, rnd.randrange(0, 600))
        n = rnd.choice([0, 0, rnd.randrange(1, 1 << ob), (1 << ob) - 1])
        w.put(ob, n)
        if n == 0:
            w.put(ob, rnd.choice([rnd.randrange(1 << ob), (1 << ob) - 1, (1 << ob) - 2, (1 << ob) - 3,
                                  0, 1, 2, 3, 4, 5, 13, 14, 15]) % (1 << ob))
        else:
            for _ in range(n):
                w.lenval(rnd.choice([0, 1, 1, 2, 2, 3, 3, 4, 4, 5, 6, 7, 8, rnd.randrange(0, 20), BIGLEN(rnd)]))
        w.rand(rnd, rnd.choice([0, 8, 40, rnd.randrange(0, 300), rnd.randrange(0, 3000)]))
    return w.bytes(rnd)


def gen_directed(rnd, meth, offcode, flat):
    """One block whose offset tree is the single code `offcode` (so every copy
    reads the same number of offset bits) and whose code tree is either a
    single copy code or, with flat=True, the flat tree "all codes have length
    9" (temp tree = single code 11, which costs no bits per length), followed
    by random bits.  Large offcodes reach read_bits(n) with n > 25, which
    fails when fewer than n bits are buffered and (32 - bits) / 8 == 0, and
    for -lk7- the codes 62/63 whose value does not fit an int."""
    ob = OFFSET_BITS[meth]
    w = BitW()
    w.put(16, rnd.choice([rnd.randrange(1, 300), 65535]))
    w.put(5, 0)
    w.put(5, 11)
    if flat:
        w.put(9, rnd.choice([510, 511, NUM_CODES[meth]]))
    else:
        w.put(9, 0)
        w.put(9, rnd.choice([256, 257, 260, 263, 264, 270, 287, 288, 300, 400, 511]))
    w.put(ob, 0)
    w.put(ob, offcode)
    w.rand(rnd, rnd.randrange(100, 4000))
    return w.bytes(rnd)


def flip(rnd, data, nflips, limit):
    b = bytearray(data)
    n = min(len(b), limit)
    if n == 0:
        return bytes(b)
    for _ in range(nflips):
        p = rnd.randrange(n)
        b[p] ^= 1 << rnd.randrange(8)
    return bytes(b)


def gen_cases(rnd, members, long_too=True):
    cases = []   # (category, line)

    def add(cat, *a):
        cases.append((cat, case(*a)))

    fam = [m for m in members if m["method"] in FAMILY]
    seen, uniq = set(), []
    for m in fam:
        k = (m["method"], m["data"], m["length"])
        if k not in seen:
            seen.add(k)
            uniq.append(m)
    short = [m for m in uniq if m["length"] <= HUGE_OK]
    long_ = [m for m in uniq if m["length"] > HUGE_OK]
    by_meth = {}
    for m in short:
        by_meth.setdefault(m["method"], []).append(m)

    # ---- A. full decode of every seed member, several read / callback schedules
    for m in short:
        meth, d, n = m["method"], m["data"], m["length"]
        add("full-huge", meth, d, "-", n, "%d,10,0" % (n + 10), -1)
        add("full-1byte", meth, d, "-", n, "1*%d" % (n + 3), -1)
        add("full-rand", meth, d, "-", n, reads_random(rnd, n, 1, 700), -1)
        add("full-rand", meth, d, "-", n, reads_random(rnd, n, 0, 40), -1)
        add("full-cb1", meth, d, "1", n, reads_fixed(n, 1000), -1)
        add("full-cb23", meth, d, "2,3", n, reads_fixed(n, 777), -1)
        add("full-cb", meth, d, rnd.choice(["4", "3,1", "1,2,3,4,5", "7,1,1", "100,1"]), n, reads_random(rnd, n, 1, 3000), -1)
        # a chunk of 0 is a callback that reports end of input
        add("full-cb0", meth, d, rnd.choice(["3,3,3,3,0", "4,4,4,0", "1,1,0", "0"]), n, reads_fixed(n, 500), -1)
    if long_too:
        for m in long_:
            meth, d, n = m["method"], m["data"], m["length"]
            add("long-full", meth, d, "-", n, reads_fixed(n, 512), -1)
            add("long-full-cb23-mon", meth, d, "2,3", n, reads_random(rnd, n, 100, 900, zeros=False), 5)
    for m in long_:
        meth, d, n = m["method"], m["data"], m["length"]
        # prefixes of the long members (several blocks, long matches)
        for cut in [rnd.randrange(0, 64), rnd.randrange(64, 3000), rnd.randrange(3000, 9000)]:
            add("long-trunc", meth, d[:cut], "-", n, reads_fixed(cut * 20 + 100, 600), -1)
        add("long-flip", meth, flip(rnd, d[:6000], 2, 64), "-", n, reads_fixed(60000, 800), -1)

    # ---- B. truncation of every seed at many offsets
    for m in short:
        meth, d, n = m["method"], m["data"], m["length"]
        offs = set(range(0, 34)) | {len(d) - 1, len(d) - 2, len(d) - 3, len(d) - 4, len(d) - 5}
        for _ in range(16):
            offs.add(rnd.randrange(0, len(d)) if len(d) else 0)
        for cut in sorted(o for o in offs if 0 <= o <= len(d)):
            rs = rnd.choice([reads_fixed(n, 1024), reads_fixed(n, 300), reads_random(rnd, n, 1, 2000)])
            add("trunc", meth, d[:cut], rnd.choice(["-", "-", "1", "2,3"]), n, rs, rnd.choice([-1, -1, 0, 3]))

    # ---- C. bit flips: in the first 64 bytes (table headers) and anywhere
    for m in short:
        meth, d, n = m["method"], m["data"], m["length"]
        for _ in range(28):
            add("flip-head", meth, flip(rnd, d, rnd.choice([1, 1, 2, 3]), 64), "-", n,
                rnd.choice([reads_fixed(n, 1024), reads_random(rnd, n, 1, 1500)]), -1)
        for _ in range(18):
            add("flip-any", meth, flip(rnd, d, rnd.choice([1, 2, 5]), len(d)), rnd.choice(["-", "-", "3"]), n,
                reads_fixed(n, 900), rnd.choice([-1, 2]))

    # ---- D. random byte strings
    for i in range(1300):
        meth = FAMILY[i % 6]
        if i < 700:
            ln = rnd.randrange(0, 40)
        elif i < 1150:
            ln = rnd.randrange(40, 500)
        else:
            ln = rnd.randrange(1000, 6000)
        d = bytes(rnd.randrange(256) for _ in range(ln))
        if rnd.random() < 0.3 and ln >= 2:
            # a small block length keeps several block headers in play
            d = bytes([0, rnd.randrange(0, 8)]) + d[2:]
        declared = rnd.choice([100000, 100000, 3000, 50])
        add("random", meth, d, rnd.choice(["-", "-", "-", "1", "2,3", "1,4"]), declared,
            rnd.choice([reads_fixed(declared, 2048), reads_fixed(min(declared, 20000), 333), "1*300,5000*21"]),
            rnd.choice([-1, -1, 0, 1]))
    for i in range(900):
        meth = FAMILY[i % 6]
        d = gen_structured(rnd, meth)
        declared = rnd.choice([100000, 20000, 700])
        add("structured", meth, d, rnd.choice(["-", "-", "1", "2,3"]), declared,
            rnd.choice([reads_fixed(declared, 2048), reads_fixed(min(declared, 20000), 500)]), rnd.choice([-1, -1, 0]))

    for meth in FAMILY:
        for offcode in range(1 << OFFSET_BITS[meth]):
            for v in range(6):
                d = gen_directed(rnd, meth, offcode, v % 2 == 0)
                add("directed", meth, d, rnd.choice(["-", "-", "1", "2,3", "3"]), 50000,
                    reads_fixed(50000, 2500), -1)

    # ---- E. all 0x00 / all 0xFF (and a few other constant bytes)
    for meth in FAMILY:
        for ln in [0, 1, 2, 3, 4, 5, 6, 7, 8, 9, 16, 33, 64, 255, 1000, 5000, 20000]:
            for byte in [0x00, 0xFF]:
                add("const", meth, bytes([byte]) * ln, rnd.choice(["-", "1", "2,3"]), 100000, reads_fixed(30000, 2000), -1)
        for byte in [0x55, 0xAA, 0x01, 0x80, 0x0F]:
            add("const", meth, bytes([byte]) * 300, "-", 100000, reads_fixed(100000, 2000), -1)

    # ---- F. declared lengths, G. monitor positions
    for meth in FAMILY:
        for m in by_meth.get(meth, [])[:2]:
            d, n = m["data"], m["length"]
            for declared in [0, 1, 2, n - 1, n, n + 1, n + 1000, 1 << 32, (1 << 32) - 1, 1 << 40]:
                add("declared", meth, d, "-", declared, reads_fixed(n, 1000), -1)
                add("declared-mon", meth, d, "2,3", declared, reads_random(rnd, n, 1, 2500), rnd.choice([0, 4]))
            add("declared-huge", meth, d, "-", n + 1, "%d,1,1" % (n + 5), -1)
            nreads = n // 1000 + 3
            for mon in [0, -1, 1, nreads // 2, nreads - 1, nreads]:
                add("monitor", meth, d, "-", n, reads_fixed(n, 1000), mon)
                add("monitor", meth, d[:len(d) // 2], "1", n, reads_fixed(n, 1000), mon)
                add("monitor-declared", meth, d, "-", rnd.choice([n // 2, n + 70000, 1 << 33]), reads_fixed(n, 1000), mon)
    # zero-length input (the truncated.lzh member) is among the seeds as well
    return cases


def main():
    ap = argparse.ArgumentParser()
    ap.add_argument("--seed", type=int, default=1)
    ap.add_argument("--keep", action="store_true", help="keep the C build directory")
    ap.add_argument("--no-long", action="store_true", help="skip the full decodes of the long members")
    ap.add_argument("--dump", help="write the case lines to this file")
    a = ap.parse_args()
    rnd = random.Random(a.seed * 1000003 + 77)
    t0 = time.time()
    model = common.build_model()
    cb = CBuild("lhnew")
    try:
        cexe = cb.compile("drv_dec", [os.path.join(CDIR, "drv_dec.c")] + cb.lib_sources())
        members = seeds.harvest(cb, max_len=10 ** 7)
        cases = gen_cases(rnd, members, long_too=not a.no_long)
        rnd.shuffle(cases)      # spread the expensive cases over the shards
        lines = [l for _, l in cases]
        if a.dump:
            with open(a.dump, "w") as f:
                f.write("\n".join(lines) + "\n")
        print("build %.1fs; %d cases" % (time.time() - t0, len(lines)))
        t1 = time.time()
        co = run_lines_parallel([cexe], lines, timeout=3000)
        t2 = time.time()
        mo = run_lines_parallel([model], lines, timeout=6000)
        t3 = time.time()
        print("C %.1fs, model %.1fs" % (t2 - t1, t3 - t2))
        per, bad, special = {}, [], {}
        for (cat, line), c, m in zip(cases, co, mo):
            st = per.setdefault(cat, [0, 0])
            st[0] += 1
            for tag in ("CRASH", "FAULT", "OUTOFFUEL", "HANG", "ERR", "OVERREAD", "INITFAIL", "NODECODER"):
                if tag in c or tag in m:
                    special.setdefault(tag, []).append((cat, line, c, m))
            if c != m:
                st[1] += 1
                bad.append((cat, line, c, m))
        if len(co) != len(lines) or len(mo) != len(lines):
            print("runner returned %d / %d lines for %d cases" % (len(co), len(mo), len(lines)))
            bad.append(("count", "-", str(len(co)), str(len(mo))))
        # informational: decoding stopped before the declared length although
        # the callback never reported the end of input.  The bit reader hands
        # the callback at most 4 bytes, so "in" well below the data length
        # means no end of input was seen: the failure came from read_bits(n)
        # with n > 25 asking the callback for 0 bytes, or (-lk7-) from an
        # offset code whose value is negative as an int.
        early = {}
        for (cat, line), c in zip(cases, co):
            f = line.split(" ")
            try:
                got = int(c.split(" len=")[1].split(" ")[0])
                used = int(c.split(" in=")[1])
            except (IndexError, ValueError):
                continue
            dlen = 0 if f[2] == "-" else len(f[2]) // 2
            asked = sum(int(x.split("*")[0]) * (int(x.split("*")[1]) if "*" in x else 1) for x in f[5].split(","))
            if got < min(int(f[4]), asked) and used + 4 < dlen and "0" not in f[3].split(","):
                early.setdefault(f[1], []).append((cat, line, c))
        for meth in sorted(early):
            print("  note: %s stopped early with input left in %d cases, e.g. [%s] %s -> %s" % (
                meth, len(early[meth]), early[meth][0][0], early[meth][0][1][:160], early[meth][0][2][:120]))
        for cat in sorted(per):
            print("  %-18s %5d cases  %d disagree" % (cat, per[cat][0], per[cat][1]))
        for tag, l in special.items():
            print("  !! %s in %d cases" % (tag, len(l)))
            for cat, line, c, m in l[:5]:
                print("     [%s] %s\n        C: %s\n        M: %s" % (cat, line[:400], c[:300], m[:300]))
        for cat, line, c, m in bad[:20]:
            print("DISAGREE [%s] %s\n   C: %s\n   M: %s" % (cat, line if len(line) < 3000 else line[:3000] + "...", c[:400], m[:400]))
        print("%d cases compared, %d disagree" % (len(lines), len(bad)))
        return 1 if bad or special else 0
    finally:
        if not a.keep:
            cb.close()


if __name__ == "__main__":
    sys.exit(main())

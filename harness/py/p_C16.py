"""C16 -- same members from file, pipe or callbacks, and after any self-extractor prefix."""
import os, random, hashlib, collections, glob, re, shutil
import common, lhabuild as lb, hdrgen
from common import CBuild

PID = "C16"
TRUSTED = ["C driver harness/c/drv_hdr.c (four stream kinds: real file, real pipe, callbacks with/without skip)"]
ASSUMPTIONS = ["callback sources deliver full reads (min(n, remaining)); the chunking theorem in P_Sfx covers short reads below 256 KiB",
               "verdicts (CRC checks) across kinds are compared through the tool (lha t FILE vs lha t - < FILE)"]
KINDS = ["file", "pipe", "cbskip", "cbnoskip"]
MARKERS = [b"LHA-SFX", b"LhASFX V1.2,"]
SIG = re.compile(rb"-(lh.|lz[45s]|pm[^s])-", re.S)


def sig_positions(s):
    """match positions q (signature at q+2..q+6) as file_header_match tests them"""
    res = []
    for q in range(0, max(0, len(s) - 6)):
        if s[q + 2] == 0x2d and s[q + 6] == 0x2d:
            b3, b4, b5 = s[q + 3], s[q + 4], s[q + 5]
            if (b3 == 0x6c and b4 == 0x68) or (b3 == 0x6c and b4 == 0x7a and b5 in (0x34, 0x35, 0x73)) or \
               (b3 == 0x70 and b4 == 0x6d and b5 != 0x73):
                res.append(q)
    return res


def marker_positions(s):
    res = []
    for m in MARKERS:
        i = s.find(m)
        while i >= 0:
            res.append(i)
            i = s.find(m, i + 1)
    return sorted(res)


def clean_bytes(rnd, n):
    """n bytes with no signature pattern and no marker inside them"""
    while True:
        k = rnd.randrange(4)
        if k == 0:
            b = bytes(rnd.randrange(256) for _ in range(n))
        elif k == 1:
            b = bytes(rnd.choice(b"MZ\x00\x90\xff-lhpmzLAS") for _ in range(n))
        elif k == 2:
            b = bytes([rnd.randrange(256)]) * n
        else:
            b = (b"This program cannot be run in DOS mode. -l h5- --lh-5 -pms- " * (n // 50 + 1))[:n]
        if not sig_positions(b + b"\0" * 7) and not marker_positions(b):
            return b


def members(c, nodata=False):
    """the part of a drv_hdr output line that describes the members (without request counts; without the first data
    bytes when lines of the reading and the header-only traversal are compared)"""
    c = c.split(" reads=")[0]
    return re.sub(r" d=[0-9a-f-]*", "", c) if nodata else c


def skipfail_groups(r16, simple_member, n):
    """groups ("kinds-skipfail", lines, None): see the comment at the call"""
    res = []
    for j in range(n):
        inner = simple_member(b"hidden", 3, b"abc", lv=r16.choice([0, 1, 2])) + \
            (simple_member(b"second", 2, b"xy", lv=r16.choice([0, 1, 2])) if r16.random() < 0.5 else b"") + r16.choice([b"", b"\0"])
        for cmd, lead in (("hdrs", b""), ("hdr", bytes(r16.randrange(1, 256) for _ in range(8)))):
            data = lead + inner
            decl = r16.choice([len(data) + 1, len(data) + r16.randrange(2, 40), len(data) + 1000, 70000, 2 ** 31 + 5, 2 ** 32 - 1])
            a = r16.choice([b"", simple_member(b"first", 4, b"1234")]) + simple_member(b"outer", decl, data, lv=r16.choice([0, 1, 2]))
            res.append(("kinds-skipfail", ["%s %s %s" % (cmd, k, a.hex()) for k in ["pipe", "cbskipstay", "cbskip", "cbnoskip", "file"]], None))
    return res


def run(ctx):
    rnd = random.Random(ctx.seed * 22801763 + 16)
    cb = CBuild(PID)
    viol, mism = [], []
    dist = collections.Counter()
    scratch = common.scratch_dir("c16")
    try:
        hexe = cb.compile("drv_hdr", [os.path.join(common.CDIR, "drv_hdr.c")] + cb.lib_sources())
        lha = common.build_lha(cb)
        paths = sorted(p for p in glob.glob(os.path.join(common.REPO, "test/archives/*/*"))
                       if os.path.isfile(p) and os.path.getsize(p) < 60000)
        arcs = []
        for p in rnd.sample(paths, 25 if ctx.quick else len(paths)):
            arcs.append(open(p, "rb").read())
        for _ in range(25 if ctx.quick else 400):
            ms = b""
            for _ in range(rnd.choice([1, 2, 3])):
                f = hdrgen.rfields(rnd)
                if lb.normalise(f) is None:
                    continue
                h, d = hdrgen.member(f)
                ms += h + d
            if len(ms) >= 24:
                arcs.append(ms + b"\0")
        # groups of lines whose member lists must be equal
        groups = []      # (tag, [lines], expect_same_as_first, known_sig or None)
        for a in arcs:
            # (1) four kinds, and every truncation of a few archives
            groups.append(("kinds", ["hdr %s %s" % (k, a.hex()) for k in KINDS], None))
            if len(a) < 400 and rnd.random() < (0.3 if ctx.quick else 1.0):
                for cut in range(0, len(a), 1 if not ctx.quick else 3):
                    groups.append(("kinds-trunc", ["hdr %s %s" % (k, a[:cut].hex() or "-") for k in KINDS], None))
        base = [a for a in arcs if len(a) < 20000 and sig_positions(a[:7]) == [0]]
        plens = list(range(0, 65)) + [11, 12, 13, 23, 24, 25, 35, 36, 37, 47, 48, 49, 120, 1000, 4093, 4096]
        if not ctx.quick:
            plens += [262100, 262143, 262144 - 24, 261120] + [rnd.randrange(1, 261000) for _ in range(40)]
        else:
            plens += [261120, 262100]
        for n in plens:
            a = rnd.choice(base)
            P = clean_bytes(rnd, n)
            full = P + a
            straddle = [q for q in sig_positions(full) if q < len(P)] + [q for q in marker_positions(full) if q < len(P)]
            k = rnd.choice(KINDS)
            groups.append(("prefix", ["hdr %s %s" % (k, a.hex()), "hdr %s %s" % (k, full.hex())],
                           "straddle" if straddle else None))
            dist["prefix_len<=64" if n <= 64 else "prefix_long"] += 1
        # header-only traversal (no data read between headers: the listing path) of archives whose first header is
        # short -- shorter than, equal to and a little longer than the scan window -- followed by more members
        shorts = []
        for hl in list(range(24, 41)) * (1 if ctx.quick else 6):
            for _ in range(200):
                lv = rnd.choice([0, 0, 1, 2])
                f = hdrgen.rfields(rnd, lv=lv)
                f.pop("area", None)
                if lv in (0, 1):
                    f["name"] = bytes(rnd.choice(b"abcdefgh") for _ in range(max(0, hl - (24 if lv == 0 else 27))))
                else:
                    f["exts"] = []
                f["clen"] = rnd.choice([1, 5, 9, 58, 300])
                if lb.normalise(f) is None:
                    continue
                h, d = hdrgen.member(f)
                if len(h) != hl or sig_positions((h + d)[:7]) != [0]:
                    continue
                ms = h + d
                for _ in range(rnd.choice([1, 2, 3])):
                    g = hdrgen.rfields(rnd)
                    if lb.normalise(g) is None:
                        continue
                    h2, d2 = hdrgen.member(g)
                    ms += h2 + d2
                if len(ms) > len(h) + len(d) and len(sig_positions(ms)) >= 2:
                    shorts.append(ms + b"\0")
                    break
        for a in shorts:
            groups.append(("short-first-kinds", ["hdr file %s" % a.hex()] + ["hdrs %s %s" % (k, a.hex()) for k in KINDS], None))
            for n in (range(0, 65) if not ctx.quick else rnd.sample(range(0, 65), 22)):
                P = clean_bytes(rnd, n)
                full = P + a
                if [q for q in sig_positions(full) if q < len(P)] or [q for q in marker_positions(full) if q < len(P)]:
                    continue
                groups.append(("short-first-prefix", ["hdrs %s %s" % (k, x.hex()) for k in (rnd.choice(KINDS),) for x in (a, full)], None))
        dist["short_first_archives"] = len(shorts)
        # members whose compressed-size field lies in the upper half of the 32-bit range (the archive is cut short long before):
        # the skip is a seek on a file, a read loop on a pipe, a callback or a read loop on callbacks.  Plain values, and layouts
        # in which a skip distance that wrapped to a negative number would land exactly on a header hidden in the previous
        # member's data.
        r16 = random.Random(ctx.seed * 86028121 + 1616)

        def simple_member(name, clen, data, lv=None):
            lv = r16.choice([0, 1, 2]) if lv is None else lv
            f = {"level": lv, "method": b"-lh0-", "clen": clen, "length": clen & 0xffffffff, "crc": 0, "attr": 0x20, "os": ord('U'),
                 "time": 0x21 if lv < 2 else 1000000000, "name": name, "exts": [(1, name)]}
            return lb.build_header(f) + data
        for big in [2 ** 31 - 1, 2 ** 31, 2 ** 31 + 9, 2 ** 32 - 200, 2 ** 32 - 9, 2 ** 32 - 1 - r16.randrange(1, 60)]:
            a = simple_member(b"first", 5, b"12345") + simple_member(b"huge", big, bytes(r16.randrange(256) for _ in range(r16.choice([0, 7, 8, 9, 60, 300]))),
                                                                      lv=r16.choice([0, 2]))
            for c in ("hdr", "hdrs"):
                groups.append(("kinds-bigclen", ["%s %s %s" % (c, k, a.hex()) for k in KINDS], None))
        for _ in range(4 if ctx.quick else 24):
            hidden = simple_member(b"hidden", 2 ** 31 - 1 - r16.randrange(100), b"", lv=r16.choice([0, 2]))
            pad = bytes(r16.randrange(1, 9))
            m1 = simple_member(b"outer", len(pad) + len(hidden) + 3, pad + hidden + b"\0\0\0")
            s_hidden = m1.index(hidden)
            lv2 = r16.choice([0, 2])
            h2len = len(simple_member(b"wraps", 0, b"", lv=lv2))      # the header length does not depend on the size value
            back = len(m1) + h2len - s_hidden                          # from the end of the second header back to the hidden one
            wrap = r16.choice([2 ** 32, 2 ** 32, 2 ** 31])
            a = m1 + simple_member(b"wraps", wrap - back, bytes(r16.randrange(256) for _ in range(12)), lv=lv2)
            for c in ("hdr", "hdrs"):
                groups.append(("kinds-bigclen", ["%s %s %s" % (c, k, a.hex()) for k in KINDS], None))
        # every skip distance 0 .. 100 and around 128, 160, 256 (the read-and-discard skips work in 32-byte pieces): a stored
        # member of that many bytes between two others, headers only (the whole member is skipped) and after 8 bytes were read
        # ... and around the powers of two a larger discard buffer could have (512 .. 64 KiB) and their small multiples
        pow2 = sorted({m * p_ + d_ for p_ in (512, 1024, 2048, 4096, 8192, 16384, 32768, 65536) for m in (1, 2, 3) for d_ in (-1, 0, 1)
                       if m * p_ <= 25000 or m == 1})
        for k_ in list(range(0, 101)) + [127, 128, 129, 130, 159, 160, 161, 162, 255, 256, 257, 258] + pow2:
            a = simple_member(b"a", 3, b"abc") + simple_member(b"mid", k_, bytes((7 * i_ + k_) & 0xff or 1 for i_ in range(k_))) + simple_member(b"z", 2, b"yz") + b"\0"
            groups.append(("kinds-skipsizes", ["hdrs %s %s" % (k, a.hex()) for k in KINDS], None))
            a = simple_member(b"a", 3, b"abc") + simple_member(b"mid", k_ + 8, bytes((5 * i_ + k_) & 0xff or 1 for i_ in range(k_ + 8))) + simple_member(b"z", 2, b"yz") + b"\0"
            groups.append(("kinds-skipsizes", ["hdr %s %s" % (k, a.hex()) for k in KINDS], None))
        # long prefixes (64 KiB .. 250 KiB) of EVERY residue modulo the 24-byte window: 24 consecutive lengths at each of
        # several places, the prefix free of '-' (constant byte, random bytes) or ordinary signature-free bytes -- the first
        # header then falls on every position of a scan window also when whole windows were passed over before
        for base_ in ([66000, 200000] if ctx.quick else [66000, 131072 - 12, 200000, 255 * 1024 - 24]):
            for d_ in range(24):
                n = base_ + d_
                if n >= 255 * 1024:
                    continue
                cls = (d_ + base_) % 3
                if cls == 0:
                    P = bytes([r16.choice([0, 0x20, 0x90, 0xff, 0x6c])]) * n
                elif cls == 1:
                    P = r16.randbytes(n).replace(b"-", b"_")
                else:
                    P = clean_bytes(r16, n)
                a = r16.choice(base)
                full = P + a
                straddle = [q for q in sig_positions(full[len(P) - 8:len(P) + 8]) if q < 8] + \
                           [q for q in marker_positions(full[len(P) - 16:len(P) + 16]) if q < 16]
                if sig_positions(P[:200000] + b"\0" * 7) and cls != 2:
                    continue
                k = r16.choice(KINDS)
                groups.append(("prefix-long-residues", ["hdr %s %s" % (k, a.hex()), "hdr %s %s" % (k, full.hex())],
                               "straddle" if straddle else None))
        # a member whose data is cut short, the bytes that ARE there holding a complete, valid member: skipping the truncated
        # member fails on every kind of stream (a seek past the end of a file succeeds, and the next header read then finds
        # nothing), and the archive must end there for all of them -- also for a skip callback that refuses the skip
        # without moving (kind cbskipstay), where the hidden member is still unread when the skip has failed
        for g_ in skipfail_groups(r16, simple_member, 3 if ctx.quick else 12):
            groups.append(g_)
        # prefixes ending in every proper prefix of a signature
        for a in rnd.sample(base, min(len(base), 6)):
            for tail in (b"-", b"-l", b"-lh", b"-lh5", b"zz-lh", b"xx-", b"-pm", b"LHA-SF", b"LhASFX V1.2"):
                P = clean_bytes(rnd, rnd.randrange(0, 40)) + tail
                full = P + a
                bad = [q for q in sig_positions(full) if q < len(P)] + [q for q in marker_positions(full) if q < len(P)]
                inside = sig_positions(P + b"\0" * 7) or marker_positions(P)
                if inside:
                    continue
                groups.append(("prefix-sigtail", ["hdr cbskip %s" % a.hex(), "hdr cbskip %s" % full.hex()],
                               "straddle" if bad else None))
        # one decoy header after a marker
        for a in rnd.sample(base, min(len(base), 10)):
            for mk in MARKERS:
                decoy_f = hdrgen.rfields(rnd, lv=rnd.choice([0, 1]))
                decoy = lb.build_header(decoy_f)[:rnd.choice([21, 30, 40])]
                if len(sig_positions(decoy + b"\0" * 7)) != 1:
                    continue
                P = clean_bytes(rnd, rnd.randrange(0, 200)) + mk + clean_bytes(rnd, rnd.randrange(0, 60)) + decoy + clean_bytes(rnd, rnd.randrange(13, 80))
                full = P + a
                ms_ = [q for q in marker_positions(full) if q < len(P)]
                ds_ = [q for q in sig_positions(full) if q < len(P)]
                if len(ms_) != 1 or len(ds_) != 1 or ms_[0] > ds_[0]:
                    continue
                groups.append(("decoy", ["hdr file %s" % a.hex(), "hdr file %s" % full.hex()], None))
        # the same with the decoy FAR from the marker and the archive far from the decoy (the property sets no distance): gaps
        # of 60 bytes .. 200 KiB, the whole prefix below 255 KiB
        gaps1 = [61, 100, 300, 1000, 2048, 4000, 4096, 4100, 5000, 9000, 20000, 66000, 131000, 200000]
        for j, g1 in enumerate(gaps1 if not ctx.quick else r16.sample(gaps1[:7], 4) + r16.sample(gaps1[7:], 4)):
            a = r16.choice(base)
            mk = MARKERS[j % 2]
            decoy_f = hdrgen.rfields(r16, lv=r16.choice([0, 1]))
            decoy = lb.build_header(decoy_f)[:r16.choice([21, 30, 40])]
            if len(sig_positions(decoy + b"\0" * 7)) != 1:
                decoy = lb.build_header({"level": 0, "method": b"-lh5-", "clen": 7, "length": 9, "time": 0x21, "attr": 0x20, "os": 0,
                                         "crc": 0x1234, "name": b"decoy.txt"})[:30]
            g2 = r16.choice([13, 80, 500, 5000, 30000])
            P = clean_bytes(r16, r16.randrange(0, 200)) + mk + clean_bytes(r16, g1) + decoy + clean_bytes(r16, g2)
            full = P + a
            ms_ = [q for q in marker_positions(full) if q < len(P)]
            ds_ = [q for q in sig_positions(full) if q < len(P)]
            if len(P) >= 255 * 1024 or len(ms_) != 1 or len(ds_) != 1 or ms_[0] > ds_[0]:
                continue
            k_ = r16.choice(KINDS)
            groups.append(("decoy-far", ["hdr %s %s" % (k_, a.hex()), "hdr %s %s" % (k_, full.hex())], None))
        # the known straddle witness: "zz-lh" + a level-0 archive whose checksum byte is '-'
        for crc in range(65536):
            wf = {"level": 0, "method": b"-lh0-", "clen": 3, "length": 3, "time": 0x21, "attr": 0x20, "os": 0, "crc": crc, "name": b"a"}
            wh = lb.build_header(wf)
            if wh[1] == 0x2d:
                wa = wh + b"abc" + b"\0"
                groups.append(("prefix-known-straddle", ["hdr file %s" % wa.hex(), "hdr file %s" % (b"zz-lh" + wa).hex()], "straddle"))
                break
        lines = [l for g in groups for l in g[1]]
        co = common.run_lines_parallel([hexe], lines)
        known_kind = [i for i, l in enumerate(lines) if l.split()[1] in KINDS]
        mo = list(co)            # lines of a kind the extracted model does not have are compared across kinds only (C alone)
        for i, m_ in zip(known_kind, common.run_lines_parallel([ctx.model], [lines[i] for i in known_kind])):
            mo[i] = m_
        pos = 0
        nontriv = 0
        known_hits = collections.Counter()
        for tag, ls, known in groups:
            cs = co[pos:pos + len(ls)]
            ms = mo[pos:pos + len(ls)]
            pos += len(ls)
            dist[tag] += 1
            for l, c, m in zip(ls, cs, ms):
                if not (c.startswith("H ") or c.startswith("E ")):
                    viol.append({"property": PID, "kind": "abnormal", "case": l[:100000], "observed": c[:300], "sig": "crash"})
                elif c != m:
                    mism.append({"case": l[:3000], "c": c[:500], "model": m[:500]})
            nd = tag == "short-first-kinds"
            ref = members(cs[0], nd)
            if ref.startswith("H "):
                nontriv += 1
            for l, c in zip(ls[1:], cs[1:]):
                if members(c, nd) != ref:
                    v = {"property": PID, "kind": "members-differ:" + tag, "case": ls[0][:200000], "case2": l[:600000],
                         "observed": ref[:400], "observed2": members(c, nd)[:400], "sig": (known or tag)}
                    if known == "straddle":
                        v["sig"] = "straddle"
                    viol.append(v)
                    break
        # (3) the tool: named file vs standard input
        ntool = 0
        for i, a in enumerate(arcs[:(15 if ctx.quick else 200)]):
            ap = os.path.join(scratch, "t%d.lzh" % i)
            open(ap, "wb").write(a)
            r1 = common.run_lha(lha, ["t", ap], cwd=scratch)
            r2 = common.run_lha(lha, ["t", "-"], cwd=scratch, stdin=a)
            o1 = r1[1].replace(ap.encode(), b"ARCHIVE")
            o2 = r2[1].replace(b"-", b"-")
            ntool += 1
            if r1[0] != r2[0] or _strip(o1) != _strip(o2):
                viol.append({"property": PID, "kind": "file-vs-stdin", "archive_hex": a.hex()[:200000], "exit": [r1[0], r2[0]],
                             "observed": o1[-300:].decode(errors="replace"), "observed2": o2[-300:].decode(errors="replace"),
                             "sig": "tool-stdin"})
            os.unlink(ap)
        dist["tool_file_vs_stdin"] = ntool
        # (4) known finding: with the archive on standard input and the default overwrite policy the tool reads the answer
        #     to its "OverWrite ?" prompt from the archive stream itself: the members `lha x -` yields then differ from the
        #     ones `lha l -` lists and `lha x FILE` (answer y) extracts.  Witness corpus/C16/stdin_prompt.txt:
        #     member a (data "y\n"), two zero bytes (= end of archive for a plain reading), a hidden member b.
        wp = os.path.join(common.VERIF, "corpus", PID, "stdin_prompt.txt")
        if os.path.exists(wp):
            W = bytes.fromhex([l for l in open(wp).read().split("\n") if l and not l.startswith("#")][0])
            res = {}
            for how in ("file", "dash"):
                d = os.path.join(scratch, "sp_" + how)
                os.makedirs(d, exist_ok=True)
                open(os.path.join(d, "a"), "wb").write(b"old")
                if how == "file":
                    open(os.path.join(d, "w.lzh"), "wb").write(W)
                    r = common.run_lha(lha, ["x", "w.lzh"], cwd=d, stdin=b"y\n")
                else:
                    r = common.run_lha(lha, ["x", "-"], cwd=d, stdin=W)
                res[how] = (r[0], sorted(f for f in os.listdir(d) if f != "w.lzh"))
                shutil.rmtree(d, ignore_errors=True)
            lst = common.run_lha(lha, ["l", "-"], cwd=scratch, stdin=W)
            dist["stdin_prompt_witness"] = 1
            if res["file"][1] != res["dash"][1]:
                viol.append({"property": PID, "kind": "members-differ:stdin-shared-with-the-overwrite-prompt", "archive_hex": W.hex(),
                             "observed": "lha x w.lzh (answer y): exit %d, files %s" % res["file"],
                             "observed2": "lha x - < w.lzh: exit %d, files %s; lha l - lists %d member line(s)" % (
                                 res["dash"][0], res["dash"][1], lst[1].count(b"[generic]") + lst[1].count(b"[Unix]") + lst[1].count(b"[MS-DOS]")),
                             "sig": "stdin-prompt"})
        cov = {"evaluations": len(lines) + 2 * ntool, "distinct_nontrivial": nontriv,
               "rule": "repository and generated archives through the four stream kinds (and every truncation of small ones); prefixes of "
                       "every length 0..64 and around multiples of 12/24 and near 256 KiB made of signature-free bytes (random, alphabet "
                       "of signature characters, constant, text), 24 consecutive prefix lengths at 66000 and at 200000 bytes ('-'-free and ordinary "
                       "signature-free bytes), prefixes ending in every proper prefix of a signature/marker, stubs "
                       "with marker + one decoy header (decoy up to 60 bytes after the marker, and 61 bytes .. 200 KiB after it); groups must yield identical member lists (C-only oracle) and every line must "
                       "equal the model's; lha t FILE vs lha t - < FILE; members with compressed-size fields >= 2^31 (archive cut short), incl. layouts where "
                       "a skip distance wrapped to a negative number lands on a header hidden in earlier data, through the four kinds, "
                       "reading and header-only; every skip distance 0..100, around 128/160/256 and around 512..65536 (and their doubles / triples) through the four kinds; truncated members whose remaining bytes hold a complete member, through the four kinds and "
                       "a skip callback that refuses without moving: the archive ends at the truncated member. non-trivial = group whose reference yields a member",
               "distribution": dict(dist), "samples": [groups[0][1][0][:120], groups[-1][1][1][:160]]}
        return {"violations": viol[:12], "mismatches": mism[:10], "coverage": cov,
                "search_note": "direct oracle: member lists compared across kinds / with and without prefix on the C alone"}
    finally:
        shutil.rmtree(scratch, ignore_errors=True)
        cb.close()


def _strip(o):
    """tool output without the archive name"""
    return re.sub(rb"ARCHIVE|-", b"", o)


def replay(payload):
    cb = CBuild(PID)
    try:
        hexe = cb.compile("drv_hdr", [os.path.join(common.CDIR, "drv_hdr.c")] + cb.lib_sources())
        if "case2" not in payload:
            print("replay by hand:", payload.get("kind"))
            return 1
        out = common.run_lines_parallel([hexe], [payload["case"], payload["case2"]])
        print("without:", members(out[0])[:300]); print("with   :", members(out[1])[:300])
        bad = members(out[0]) != members(out[1])
        print("REPRODUCED" if bad else "not reproduced")
        return 1 if bad else 0
    finally:
        cb.close()

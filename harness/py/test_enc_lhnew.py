#!/usr/bin/env python3
"""Validation of the C01 specification (coq/S_LhNew.v, run extracted through
harness/ml/d_enc_lhnew.ml): streams made by the spec encoder are decoded by
the real C decoder of /repo (harness/c/drv_dec.c, ASan build) and the bytes
that come out must be the spec's own expansion of the commands.

  auto      lhnewenc: random command lists / block partitions, tables from auto_stream
  explicit  lhnewx:   random valid table descriptions made here (random complete
                      codes up to the longest codeword the format can express,
                      random zero-run tokenisation, random temp count / skip,
                      single-symbol forms)
  shapes    lhnewx:   hand-picked table shapes
  seeds     real members of /repo/test/archives re-encoded as literals

usage: test_enc_lhnew.py [--seed N] [--quick] [--no-speed]
exit status 0: the C decoder reproduced every expansion and every description
was accepted by wf_stream."""
import os, sys, time, random, argparse, resource

sys.path.insert(0, os.path.dirname(os.path.abspath(__file__)))
import common, seeds, decgen
from common import CBuild, run_lines_parallel

# the extracted encoder recurses over command lists: lift the soft stack limit
try:
    _s, _h = resource.getrlimit(resource.RLIMIT_STACK)
    resource.setrlimit(resource.RLIMIT_STACK, (_h, _h))
except Exception:
    pass

#            name   method   history offset num   lhark  min max
VARIANTS = [("lh4", "-lh4-", 14, 4, 510, False, 3, 256),
            ("lh5", "-lh5-", 14, 4, 510, False, 3, 256),
            ("lh6", "-lh6-", 16, 5, 510, False, 3, 256),
            ("lh7", "-lh7-", 17, 5, 510, False, 3, 256),
            ("lhx", "-lhx-", 20, 5, 510, False, 3, 256),
            ("lk7", "-lk7-", 16, 6, 289, True, 3, 514)]


class V:
    def __init__(self, t):
        (self.name, self.method, self.hb, self.ob, self.num, self.lhark, self.lmin, self.lmax) = t
        self.win = 1 << self.hb
        self.maxoff = (1 << self.ob) - 1


# ---------------------------------------------------------------- symbols (for the explicit generator only)

def len_sym(v, ln, alt=False):
    if not v.lhark:
        return 256 + ln - 3
    if alt:
        return 288
    x = ln - 3
    if x < 8:
        return 256 + x
    e = x.bit_length() - 1 - 2
    return 260 + 4 * e + ((x >> e) - 4)


def dist_sym(v, d):
    if v.lhark:
        if d < 4:
            return d
        e = d.bit_length() - 1 - 1
        return 2 + 2 * e + ((d >> e) - 2)
    return d if d < 2 else d.bit_length()


# commands are tuples ('L', byte) | ('C', dist, len, alt)

def cmd_str(c):
    if c[0] == 'L':
        return "L%02x" % c[1]
    return "C%d:%d%s" % (c[1], c[2], "!" if c[3] else "")


def cmds_str(cmds):
    """run-length compressed text form"""
    out = []
    i = 0
    while i < len(cmds):
        j = i
        while j + 1 < len(cmds) and cmds[j + 1] == cmds[i]:
            j += 1
        s = cmd_str(cmds[i])
        out.append(s if j == i else "%s*%d" % (s, j - i + 1))
        i = j + 1
    return ",".join(out) if out else "-"


def out_len(cmds):
    return sum(1 if c[0] == 'L' else c[2] for c in cmds)


def rand_cmds(rnd, v, n, max_out=60000, short=False, lit_p=None, alphabet=None):
    """n commands; distances at the interesting places relative to the output so far"""
    cmds = []
    olen = 0
    lit_p = rnd.choice([0.3, 0.6, 0.9]) if lit_p is None else lit_p
    alpha = alphabet or rnd.choice([256, 256, 16, 3])
    for _ in range(n):
        if rnd.random() < lit_p or olen + v.lmax > max_out:
            cmds.append(('L', rnd.randrange(alpha) if alpha < 256 else rnd.randrange(256)))
            olen += 1
            continue
        cand = [0, 1, v.win - 1, rnd.randrange(v.win), rnd.randrange(min(v.win, olen + 300)),
                rnd.randrange(1 << rnd.randrange(1, v.hb + 1))]
        if olen >= 1:
            cand += [olen - 1, olen, olen + 1, olen + rnd.randrange(50)]
        d = rnd.choice(cand)
        if d < 0 or d >= v.win:
            d = rnd.randrange(v.win)
        if short:
            ln = rnd.choice([v.lmin, v.lmin + 1, rnd.randrange(v.lmin, v.lmin + 8)])
        else:
            ln = rnd.choice([v.lmin, v.lmax, v.lmax - 1, rnd.randrange(v.lmin, v.lmax + 1), rnd.randrange(v.lmin, 20),
                             256 if v.lmax >= 256 else v.lmin])
        alt = v.lhark and ln == 514 and rnd.random() < 0.5
        cmds.append(('C', d, ln, alt))
        olen += ln
    return cmds


# ---------------------------------------------------------------- explicit descriptions

def rand_depths(rnd, k, maxd, skew):
    """leaf depths of a random full binary tree with k >= 2 leaves, depth <= maxd"""
    res = []

    def go(k, d):
        if k == 1:
            res.append(d)
            return
        cap = 1 << min(maxd - d - 1, 20)       # leaves a subtree one level down can hold
        lo = max(1, k - cap)
        hi = min(k - 1, cap)
        if rnd.random() < skew:
            a = lo
        else:
            a = rnd.randrange(lo, hi + 1)
        if rnd.random() < 0.5:
            a = k - a
        a = min(max(a, lo), hi)
        go(a, d + 1)
        go(k - a, d + 1)
    go(k, 0)
    return res


def rand_code(rnd, need, universe, maxd, extra_p=0.3):
    """{sym: length} complete code containing every symbol of need (extra
    symbols from universe are added to reach at least 2)"""
    syms = set(need)
    others = [s for s in universe if s not in syms]
    rnd.shuffle(others)
    nextra = 0
    if rnd.random() < extra_p:
        nextra = rnd.randrange(0, min(len(others), 40) + 1)
    while len(syms) + nextra < 2:
        nextra += 1
    syms |= set(others[:nextra])
    while (1 << maxd) < len(syms):
        syms.discard(next(s for s in syms if s not in need))
    depths = rand_depths(rnd, len(syms), maxd, rnd.choice([0.0, 0.3, 0.8, 0.97]))
    order = sorted(syms)
    rnd.shuffle(order)
    return dict(zip(order, depths))


def chain_code(syms):
    """lengths 1, 2, ..., k-1, k-1 over the given symbols (longest possible codewords)"""
    k = len(syms)
    return {s: (i + 1 if i < k - 1 else k - 1) for i, s in enumerate(syms)}


def tokenise(rnd, lens_vec, n, policy="rand"):
    """lens_vec: lengths of symbols 0..n-1.  Returns token strings; zero runs
    are cut at random into the three zero-run forms (the last token may run
    past n)."""
    toks = []
    i = 0
    while i < n:
        if lens_vec[i] != 0:
            toks.append("l%d" % lens_vec[i])
            i += 1
            continue
        j = i
        while j < n and lens_vec[j] == 0:
            j += 1
        r = j - i
        last = (j == n)
        while r > 0:
            opts = ["z"]
            if r >= 3:
                opts.append("s")
            if r >= 20:
                opts.append("g")
            if last and policy != "exact":
                opts += ["s", "g"]           # overshoot allowed at the very end
            if policy == "greedy":
                o = "g" if r >= 20 else ("s" if r >= 3 and r != 19 else ("s" if r == 19 else "z"))
            else:
                o = rnd.choice(opts)
            if o == "z":
                toks.append("z")
                r -= 1
            elif o == "s":
                hi = 18 if (last and policy != "exact") else min(18, r)
                lo = 3
                k = rnd.choice([lo, hi, rnd.randrange(lo, hi + 1)])
                if policy == "greedy":
                    k = min(18, r)
                if not last or policy == "exact":
                    k = min(k, r)
                toks.append("s%d" % k)
                r -= k
            else:
                hi = 531 if (last and policy != "exact") else min(531, r)
                lo = 20
                k = rnd.choice([lo, hi, rnd.randrange(lo, hi + 1)])
                if policy == "greedy":
                    k = min(531, r)
                if not last or policy == "exact":
                    k = min(k, r)
                toks.append("g%d" % k)
                r -= k
            if r < 0:
                r = 0
        i = j
    return toks


def tok_temp_sym(t):
    return {"z": 0, "s": 1, "g": 2}[t[0]] if t[0] != "l" else int(t[1:]) + 2


def temp_desc(rnd, need, force_single=None, code=None, n=None, skip=None):
    """temp table text for the set of temp symbols needed"""
    need = set(need)
    if force_single is None:
        force_single = (len(need) == 1 and rnd.random() < 0.5)
    if len(need) == 1 and force_single:
        return "S%d" % next(iter(need))
    if code is None:
        code = rand_code(rnd, need, range(31), 30)
    last = max(code)
    if n is None:
        n = rnd.choice([last + 1, last + 1, rnd.randrange(last + 1, 32), 31])
    vec = [code.get(i, 0) for i in range(n)]
    z = 0
    while 3 + z < n and vec[3 + z] == 0:
        z += 1
    if skip is None:
        skip = rnd.choice([min(3, z), rnd.randrange(0, min(3, z) + 1)])
    expl = vec[:3] + vec[3 + skip:]
    return "T%d:%d:%s" % (n, skip, ",".join(map(str, expl)) if expl else "-")


def code_desc(rnd, v, need, maxd=None, policy="rand", code=None, n=None, temp_kw=None):
    """(temp text, code text) for the set of command symbols needed"""
    need = set(need)
    if len(need) == 1 and code is None and rnd.random() < 0.6:
        s = next(iter(need))
        # the temp table is still sent: anything well-formed
        t = temp_desc(rnd, {rnd.randrange(31)}, force_single=True) if rnd.random() < 0.5 else \
            temp_desc(rnd, {rnd.randrange(31), rnd.randrange(31)})
        return t, "S%d" % s
    if code is None:
        maxd = maxd or rnd.choice([9, 12, 16, 16, 20, 28])
        code = rand_code(rnd, need, range(v.num), maxd, extra_p=0.4)
    last = max(code)
    if n is None:
        n = rnd.choice([last + 1, last + 1, v.num, rnd.randrange(last + 1, v.num + 1)])
    vec = [code.get(i, 0) for i in range(n)]
    toks = tokenise(rnd, vec, n, policy)
    t = temp_desc(rnd, {tok_temp_sym(t) for t in toks}, **(temp_kw or {}))
    return t, "K%d:%s" % (n, ",".join(toks))


def off_desc(rnd, v, need, code=None, n=None):
    need = set(need)
    if code is None:
        if len(need) == 0 and rnd.random() < 0.7:
            return "S%d" % rnd.randrange(1 << v.ob)
        if len(need) == 1 and rnd.random() < 0.6:
            return "S%d" % next(iter(need))
        code = rand_code(rnd, need, range(v.maxoff), min(v.maxoff - 1, 40), extra_p=0.5)
    last = max(code)
    if n is None:
        n = rnd.choice([last + 1, last + 1, v.maxoff, rnd.randrange(last + 1, v.maxoff + 1)])
    return "O" + ",".join(str(code.get(i, 0)) for i in range(n))


def block_syms(v, cmds):
    cs = set()
    os_ = set()
    for c in cmds:
        if c[0] == 'L':
            cs.add(c[1])
        else:
            cs.add(len_sym(v, c[2], c[3]))
            os_.add(dist_sym(v, c[1]))
    return cs, os_


def rand_block(rnd, v, cmds, **kw):
    cs, os_ = block_syms(v, cmds)
    t, c = code_desc(rnd, v, cs, **kw)
    return "%s;%s;%s;%s" % (t, c, off_desc(rnd, v, os_), cmds_str(cmds))


def split_random(rnd, cmds):
    res = []
    i = 0
    while i < len(cmds):
        k = rnd.choice([1, 1, 2, 5, rnd.randrange(1, 40), rnd.randrange(1, 400), len(cmds)])
        res.append(cmds[i:i + k])
        i += k
    return res


# ---------------------------------------------------------------- hand-picked shapes

def shape_cases(rnd, v):
    """list of (tag, 'lhnewx ...' line)"""
    res = []

    def add(tag, blocks):
        res.append((tag, "lhnewx %s %s" % (v.name, "/".join(blocks))))

    L = lambda b: ('L', b)
    C = lambda d, l, alt=False: ('C', d, l, alt)
    cp = len_sym(v, v.lmin)
    # --- single-symbol code table: literals that cost no bits at all
    add("code-single-lit", ["S0;S65;S0;" + cmds_str([L(65)] * 7)])
    add("code-single-lit-65535", ["S0;S65;S0;" + cmds_str([L(65)] * 65535), "S5;S66;S3;" + cmds_str([L(66)])])
    # --- single-symbol code table = a copy length, single-symbol offset table: copies that cost no bits
    add("code-single-copy-off-single0", ["S0;S%d;S0;%s" % (cp, cmds_str([C(0, v.lmin)] * 9))])
    add("code-single-copy-off-single1", ["S0;S%d;S1;%s" % (len_sym(v, v.lmax), cmds_str([C(1, v.lmax)] * 3))])
    # offset single with extra bits (class of the largest distances)
    top = dist_sym(v, v.win - 1)
    add("off-single-top", ["S4;S%d;S%d;%s" % (cp, top, cmds_str([C(v.win - 1, v.lmin), C(v.win - 1 - 5, v.lmin), C((v.win // 2) if not v.lhark else (v.win * 3 // 4), v.lmin)]))])
    # --- single-symbol temp table: every code length is k, 2^k symbols
    for k in (1, 2, 5, 8):
        n = 1 << k
        cm = [L(rnd.randrange(n)) for _ in range(50)]
        add("temp-single-len%d" % k, ["S%d;K%d:%s;S0;%s" % (k + 2, n, ",".join(["l%d" % k] * n), cmds_str(cm))])
    # --- longest codewords
    for depth in (16, 28):
        syms = sorted(rnd.sample(range(256), depth - 1)) + [cp, len_sym(v, v.lmax)]
        rnd.shuffle(syms)
        code = chain_code(syms)               # lengths 1..depth, depth
        assert max(code.values()) == depth
        cm = [L(s) if s < 256 else C(3, v.lmin if s == cp else v.lmax) for s in syms] * 2
        t, c = code_desc(rnd, v, set(syms), code=code, policy="greedy", n=max(syms) + 1)
        add("code-maxlen-%d" % depth, ["%s;%s;%s;%s" % (t, c, off_desc(rnd, v, {dist_sym(v, 3)}), cmds_str(cm))])
    # temp table with the longest temp codewords: as many distinct code lengths as possible
    for depth in (12, 20, 28):
        syms = list(range(depth + 1))
        code = chain_code(syms)                # lengths 1..depth (depth twice)
        vec = [code[i] for i in range(depth + 1)]
        toks = ["l%d" % x for x in vec] + ["z", "s3", "g20"]
        need = sorted({tok_temp_sym(t) for t in toks})
        tcode = chain_code(need[::-1] if depth == 20 else need)
        t = temp_desc(rnd, need, code=tcode, n=max(need) + 1, skip=0)
        add("temp-maxlen-%d" % max(tcode.values()),
            ["%s;K%d:%s;S0;%s" % (t, depth + 1 + 24, ",".join(toks), cmds_str([L(i) for i in syms]))])
    # offset table with the longest codewords
    osyms = list(range(min(v.maxoff, v.hb + 1 if not v.lhark else 32)))
    ocode = chain_code(osyms)
    dists = [0, 1] + [rnd.randrange(2, v.win) for _ in range(40)] + [v.win - 1]
    cm = [L(1), L(2)] + [C(d, v.lmin) for d in dists]
    t, c = code_desc(rnd, v, {1, 2, cp}, maxd=4, policy="exact")
    add("off-maxlen-%d" % max(ocode.values()), ["%s;%s;%s;%s" % (t, c, off_desc(rnd, v, set(), code=ocode, n=len(osyms)), cmds_str(cm))])
    add("off-count-max", ["%s;%s;%s;%s" % (t, c, off_desc(rnd, v, set(), code=ocode, n=v.maxoff), cmds_str(cm))])
    # --- zero-run classes at both ends of their ranges
    def zr(tag, gaps, tail=None, n=None):
        # symbols separated by the given zero gaps, each gap sent as ONE token
        pos = 0
        toks = []
        syms = []
        for g in gaps:
            syms.append(pos)
            toks.append(None)
            pos += 1
            toks.append(g)
            pos += int(g[1:]) if g != "z" else 1
        syms.append(pos)
        toks.append(None)
        pos += 1
        if max(syms) >= v.num:
            return
        code = dict(zip(syms, rand_depths(rnd, len(syms), 6, 0.5)))
        toks = ["l%d" % code[syms.pop(0)] if t is None else t for t in toks]
        nn = pos
        if tail:
            toks.append(tail)
            nn = n
        need = {tok_temp_sym(t) for t in toks}
        cm = []
        for s in code:
            if s < 256:
                cm.append(L(s))
            elif v.lhark:
                if s <= 288:
                    lens = [l for l in range(3, 515) if len_sym(v, l) == s] or [514]
                    cm.append(C(0, lens[0], s == 288))
            else:
                cm.append(C(0, s - 256 + 3))
        used = {(c[1] if c[0] == 'L' else len_sym(v, c[2], c[3])) for c in cm}
        if used != set(code):
            return
        add(tag, ["%s;K%d:%s;S0;%s" % (temp_desc(rnd, need), nn, ",".join(toks), cmds_str(cm * 3))])
    zr("zero1", ["z", "z"])
    zr("zshort-3-18", ["s3", "s18", "s4", "s17"])
    zr("zlong-20", ["g20", "g21"])
    zr("zlong-mid", ["g100", "s18", "z", "g%d" % (v.num - 150)])
    zr("zlong-tail-531", ["z", "s3"], tail="g531", n=v.num)
    zr("zlong-tail-exact", ["z", "s3"], tail="g%d" % (v.num - 7), n=v.num)
    zr("zshort-tail-over", ["s18", "g20"], tail="s18", n=42)
    zr("zone-tail", ["s18", "g20"], tail="z", n=42)
    if v.num >= 510:
        zr("zlong-max-inside", ["g%d" % (v.num - 2)])      # symbols 0 and num-1 only
    # --- temp skip values 0..3 and count values
    for skip in (0, 1, 2, 3):
        # code lengths that need temp symbols 3+skip.. only (lengths >= skip+1), plus zero-run symbols
        k = skip + 1
        n = 1 << k
        toks = ["l%d" % k] * n + ["z"]
        need = {k + 2, 0}
        tcode = {0: 1, k + 2: 1}
        for nn in (k + 3, 31):
            t = temp_desc(rnd, need, code=tcode, n=nn, skip=skip)
            add("temp-skip%d-n%d" % (skip, nn), ["%s;K%d:%s;S0;%s" % (t, n + 1, ",".join(toks), cmds_str([L(i) for i in range(n)]))])
        # same table with fewer symbols skipped than possible
        for s2 in range(skip):
            t = temp_desc(rnd, need, code=tcode, n=k + 3, skip=s2)
            add("temp-skip%d-of-%d" % (s2, skip), ["%s;K%d:%s;S0;%s" % (t, n + 1, ",".join(toks), cmds_str([L(i) for i in range(n)]))])
    # --- temp lengths >= 7 (unary extension): 7, 8, 9 ...
    need = [0, 1, 2] + list(range(3, 12))
    tcode = chain_code(need[::-1])            # symbol 0 gets the longest
    code2 = chain_code(list(range(10)))       # 1..9,9 -> temp symbols 3..11
    toks = ["l%d" % code2[i] for i in range(10)] + ["z", "s5", "g25"]
    t = temp_desc(rnd, need, code=tcode, n=12, skip=0)
    add("temp-unary", ["%s;K%d:%s;S0;%s" % (t, 10 + 31, ",".join(toks), cmds_str([L(i) for i in range(10)]))])
    # --- lengths and distances at the extremes, blocks of one command
    ext = [L(0), C(0, v.lmin), C(0, v.lmax), C(v.win - 1, v.lmin), C(v.win - 1, v.lmax), L(255), C(1, v.lmax), C(2, v.lmin)]
    if v.lhark:
        ext += [C(5, 514, True), C(5, 514, False), C(5, 513), C(7, 10), C(7, 11)]
    add("extremes-1cmd-blocks", [rand_block(rnd, v, [c]) for c in ext])
    add("extremes-one-block", [rand_block(rnd, v, ext)])
    return res


# ---------------------------------------------------------------- case lists

def gen_cases(rnd, v, quick):
    """list of (tag, encoder line)"""
    cases = []
    nauto = 60 if quick else 210
    nexp = 40 if quick else 130
    for i in range(nauto):
        n = rnd.choice([1, 2, 3, 10, rnd.randrange(1, 80), rnd.randrange(1, 800), rnd.randrange(1, 5000)])
        cmds = rand_cmds(rnd, v, n)
        r = rnd.random()
        if r < 0.3:
            sizes = "%d" % len(cmds)
        elif r < 0.5:
            sizes = ",".join(["1"] * rnd.randrange(1, 12)) + ",%d" % len(cmds)
        else:
            parts = []
            left = len(cmds)
            while left > 0 and len(parts) < 30:
                k = rnd.choice([1, 2, 3, rnd.randrange(1, 100), left])
                parts.append(k)
                left -= k
            sizes = ",".join(map(str, parts))
        cases.append(("auto", "lhnewenc %s %s %s" % (v.name, cmds_str(cmds), sizes)))
    # blocks of 65535 commands
    big = rand_cmds(rnd, v, 65535 + 1 + 300, max_out=10 ** 9, short=True, lit_p=0.85)
    cases.append(("auto-65535", "lhnewenc %s %s 65535,1,300" % (v.name, cmds_str(big))))
    big = [('L', rnd.randrange(256)) for _ in range(65535 * 2 + 17)]
    cases.append(("auto-65535x2", "lhnewenc %s %s -" % (v.name, cmds_str(big))))
    if not quick:
        big = rand_cmds(rnd, v, 65535, max_out=10 ** 9, short=True, lit_p=0.5, alphabet=256)
        cases.append(("explicit-65535", "lhnewx %s %s" % (v.name, "/".join([rand_block(rnd, v, [('L', 7)]), rand_block(rnd, v, big, maxd=16),
                                                                             rand_block(rnd, v, [('C', v.win - 1, v.lmax, False)])]))))
    # output longer than the window (for -lhx-: more than 1 MiB), far distances after the wrap
    target = v.win + v.win // 8 + 1000
    cmds = rand_cmds(rnd, v, 300, max_out=10 ** 9)
    while out_len(cmds) < target:
        d = rnd.choice([v.win - 1, v.win - 2, rnd.randrange(v.win), rnd.randrange(v.win), 0, 1, out_len(cmds) % v.win])
        cmds.append(('C', d, v.lmax if rnd.random() < 0.9 else rnd.randrange(v.lmin, v.lmax), False))
        if rnd.random() < 0.2:
            cmds.append(('L', rnd.randrange(256)))
    cases.append(("auto-wrap", "lhnewenc %s %s %d,%d" % (v.name, cmds_str(cmds), len(cmds) // 3, len(cmds) // 2)))
    for i in range(nexp):
        n = rnd.choice([1, 2, 5, rnd.randrange(1, 60), rnd.randrange(1, 500), rnd.randrange(1, 3000)])
        cmds = rand_cmds(rnd, v, n, max_out=40000)
        blocks = [rand_block(rnd, v, b) for b in split_random(rnd, cmds)]
        cases.append(("explicit", "lhnewx %s %s" % (v.name, "/".join(blocks))))
    cases += shape_cases(rnd, v)
    return cases


def dec_line(method, hx, n):
    return "dec %s %s - %d %d -1 0" % (method, hx, n, n + 5)


def seed_cases(cb, model, cexe):
    """real members: C decode, compare with the stored twin, re-encode the bytes as literals"""
    members = seeds.harvest(cb)
    stored = {}
    for m in members:
        if m["method"] in ("-lh0-", "-lz4-", "-pm0-") and m["length"] == len(m["data"]) and m["length"] > 0:
            stored[(m["length"], m["crc"])] = m["data"]
    # the plain form of the archives' standard test file
    for f in ("lh0.bin",):
        fp = os.path.join(common.REPO, "test/compressed", f)
        if os.path.exists(fp):
            raw = open(fp, "rb").read()
            stored[(len(raw), decgen.py_crc(raw))] = raw
    res = []
    seen = set()
    for v in map(V, VARIANTS):
        for m in members:
            key = (m["length"], m["crc"])
            if m["method"] != v.method or key not in stored or (v.method, m["data"]) in seen or m["length"] > 120000 or not m["data"]:
                continue
            seen.add((v.method, m["data"]))
            res.append((v, m, stored[key]))
    if not res:
        return [], [], ["no seed member with a stored twin found"]
    # 1. the C decode of the real member gives exactly the twin's bytes
    lines = [dec_line(v.method, m["data"].hex(), m["length"]) for v, m, raw in res]
    co = run_lines_parallel([cexe], lines)
    bad = []
    enc = []
    for (v, m, raw), c in zip(res, co):
        pc = decgen.parse(c)
        if pc.get("h") != decgen.fnv(raw) or pc.get("len") != str(len(raw)):
            bad.append("seed %s %s: C decode differs from stored twin: %s" % (v.method, m["path"], c[:200]))
    # 2. re-encode the bytes as literals (once per method), decode again
    first = {}
    for v, m, raw in res:
        first.setdefault((v.method, len(raw), decgen.fnv(raw)), (v, m, raw))
    res2 = list(first.values())
    for v, m, raw in res2:
        enc.append("lhnewenc %s %s %s" % (v.name, ",".join("L%02x" % b for b in raw), "-" if v.name == "lh6" else "8192,100"))
    eo = run_lines_parallel([model], enc)
    lines2 = []
    for (v, m, raw), o in zip(res2, eo):
        p = o.split()
        if len(p) != 4 or p[3] != "1" or p[2] != decgen.fnv(raw) or int(p[1]) != len(raw):
            bad.append("seed %s: encoder output unexpected: %s" % (v.method, o[:200]))
            lines2.append(None)
        else:
            lines2.append(dec_line(v.method, p[0], len(raw)))
    idx = [i for i, l in enumerate(lines2) if l]
    co2 = run_lines_parallel([cexe], [lines2[i] for i in idx])
    for i, c in zip(idx, co2):
        v, m, raw = res2[i]
        pc = decgen.parse(c)
        if pc.get("h") != decgen.fnv(raw) or pc.get("len") != str(len(raw)):
            bad.append("seed %s %s: re-encoded literals decode differently: %s" % (v.method, m["path"], c[:200]))
    return res, res2, bad


# ---------------------------------------------------------------- real streams reproduced bit for bit

class _Bits:
    def __init__(self, data):
        self.d, self.p = data, 0

    def get(self, n):
        r = 0
        for _ in range(n):
            byte = self.d[self.p >> 3] if (self.p >> 3) < len(self.d) else 0
            r = (r << 1) | ((byte >> (7 - (self.p & 7))) & 1)
            self.p += 1
        return r


def _canon(vec):
    """{codeword string: symbol}: the usual canonical assignment (count per length, first code per length)"""
    code = 0
    res = {}
    for ln in range(1, max(vec) + 1):
        for s, l in enumerate(vec):
            if l == ln:
                res[format(code, "0%db" % ln)] = s
                code += 1
        code <<= 1
    return res


def _decode(bits, table):
    if isinstance(table, int):
        return table
    w = ""
    while w not in table:
        w += str(bits.get(1))
        if len(w) > 64:
            raise ValueError("no codeword")
    return table[w]


def _readlen(bits):
    l = bits.get(3)
    if l == 7:
        while bits.get(1):
            l += 1
    return l


def describe_real(v, data, total):
    """parse a real stream into the explicit description text of lhnewx (a
    reading of the format that shares nothing with the Coq side)"""
    bits = _Bits(data)
    out = 0
    blocks = []
    while out < total:
        nb = bits.get(16)
        n = bits.get(5)
        if n == 0:
            tt = bits.get(5)
            td = "S%d" % tt
        else:
            vec, expl, i, skip = [0] * 40, [], 0, 0
            while i < n:
                l = _readlen(bits)
                expl.append(l)
                vec[i] = l
                if i == 2:
                    skip = bits.get(2)
                    i += skip
                i += 1
            td = "T%d:%d:%s" % (n, skip, ",".join(map(str, expl)))
            tt = _canon(vec)
        n = bits.get(9)
        if n == 0:
            ct = bits.get(9)
            cd = "S%d" % ct
        else:
            vec, toks, i = [0] * 1100, [], 0
            while i < n:
                s = _decode(bits, tt)
                if s == 0:
                    toks.append("z")
                    i += 1
                elif s == 1:
                    k = bits.get(4) + 3
                    toks.append("s%d" % k)
                    i += k
                elif s == 2:
                    k = bits.get(9) + 20
                    toks.append("g%d" % k)
                    i += k
                else:
                    toks.append("l%d" % (s - 2))
                    vec[i] = s - 2
                    i += 1
            cd = "K%d:%s" % (n, ",".join(toks))
            ct = _canon(vec[:n])
        n = bits.get(v.ob)
        if n == 0:
            ot = bits.get(v.ob)
            od = "S%d" % ot
        else:
            vec = [_readlen(bits) for _ in range(n)]
            od = "O" + ",".join(map(str, vec))
            ot = _canon(vec)
        cmds = []
        for _ in range(nb):
            s = _decode(bits, ct)
            if s < 256:
                cmds.append(('L', s))
                out += 1
                continue
            alt = False
            if not v.lhark:
                ln = s - 256 + 3
            elif s < 264:
                ln = s - 256 + 3
            elif s < 288:
                e = (s - 260) // 4
                ln = ((4 + s % 4) << e) + bits.get(e) + 3
            else:
                ln, alt = 514, True
            o = _decode(bits, ot)
            if v.lhark:
                if o < 4:
                    d = o
                else:
                    e = (o - 2) // 2
                    d = ((2 + o % 2) << e) + bits.get(e)
            else:
                d = o if o < 2 else (1 << (o - 1)) + bits.get(o - 1)
            cmds.append(('C', d, ln, alt))
            out += ln
        blocks.append("%s;%s;%s;%s" % (td, cd, od, cmds_str(cmds)))
    return blocks, (bits.p + 7) // 8


def reproduce_cases(cb, model):
    """every distinct real member (any length): describe it, serialise the
    description with the spec, compare the bytes with the member's own"""
    members = seeds.harvest(cb, max_len=10 ** 9)
    seen = set()
    todo = []
    for v in map(V, VARIANTS):
        for m in members:
            if m["method"] != v.method or (v.method, m["data"]) in seen or m["length"] == 0 or not m["data"]:
                continue
            seen.add((v.method, m["data"]))
            try:
                blocks, used = describe_real(v, m["data"], m["length"])
            except Exception as e:                 # truncated regression archives etc.
                continue
            todo.append((v, m, blocks, used))
    eo = run_lines_parallel([model], ["lhnewx %s %s" % (v.name, "/".join(b)) for v, m, b, u in todo], timeout=3000)
    bad = []
    stats = {}
    for (v, m, blocks, used), o in zip(todo, eo):
        p = o.split()
        st = stats.setdefault(v.method, [0, 0, 0])
        if len(p) != 4:
            bad.append("real %s %s: encoder said %s" % (v.method, m["path"], o[:100]))
            continue
        mine = common.unhex(p[0])
        if p[3] != "1":
            bad.append("real %s %s: description of a real stream is not well-formed" % (v.method, m["path"]))
        if int(p[1]) != m["length"]:
            bad.append("real %s %s: expansion length %s, header says %d" % (v.method, m["path"], p[1], m["length"]))
        if len(mine) != used or mine[:-1] != m["data"][:used - 1] or (mine[-1] ^ m["data"][used - 1]) & 0x80:
            bad.append("real %s %s: serialisation differs from the real stream (%d vs %d bytes)" % (v.method, m["path"], len(mine), used))
            continue
        st[0] += 1
        st[1] += len(blocks)
        st[2] += used
    return stats, bad



def main():
    ap = argparse.ArgumentParser()
    ap.add_argument("--seed", type=int, default=1)
    ap.add_argument("--quick", action="store_true")
    ap.add_argument("--no-speed", action="store_true")
    a = ap.parse_args()
    t0 = time.time()
    model = common.build_model()
    cb = CBuild("enc_lhnew")
    fails = []
    try:
        cexe = cb.compile("drv_dec", [os.path.join(common.CDIR, "drv_dec.c")] + cb.lib_sources())
        # sanity of the fast expansion against the list-only reference
        rnd = random.Random(a.seed)
        refl = []
        for v in map(V, VARIANTS):
            for _ in range(40):
                refl.append("lhnewref " + cmds_str(rand_cmds(rnd, v, rnd.randrange(1, 200), max_out=3000)))
        ro = run_lines_parallel([model], refl)
        nref = sum(1 for o in ro if o == "1")
        print("lz77_expand = lz77_expand_ref on %d/%d command lists" % (nref, len(refl)))
        if nref != len(refl):
            fails.append("lz77_expand differs from lz77_expand_ref")
        total = {}
        for vt in VARIANTS:
            v = V(vt)
            rnd = random.Random(a.seed * 7919 + VARIANTS.index(vt))
            cases = gen_cases(rnd, v, a.quick)
            te = time.time()
            eo = run_lines_parallel([model], [c[1] for c in cases], timeout=3000)
            te = time.time() - te
            lines, meta = [], []
            for (tag, el), o in zip(cases, eo):
                p = o.split()
                if len(p) != 4:
                    fails.append("%s %s: encoder said %s for %s" % (v.method, tag, o[:100], el[:300]))
                    continue
                if p[3] != "1":
                    fails.append("%s %s: description not well-formed: %s" % (v.method, tag, el[:400]))
                    continue
                lines.append(dec_line(v.method, p[0], int(p[1])))
                meta.append((tag, el, p))
            tc = time.time()
            co = run_lines_parallel([cexe], lines, timeout=3000)
            tc = time.time() - tc
            ok = 0
            tags = {}
            maxout = 0
            for (tag, el, p), c in zip(meta, co):
                pc = decgen.parse(c)
                if pc.get("h") == p[2] and pc.get("len") == p[1]:
                    ok += 1
                    tags[tag.split("-")[0]] = tags.get(tag.split("-")[0], 0) + 1
                    maxout = max(maxout, int(p[1]))
                else:
                    fails.append("%s %s: C decodes differently: C=%s expected len=%s h=%s case=%s" % (v.method, tag, c[:160], p[1], p[2], el[:400]))
            total[v.method] = (ok, len(cases))
            print("%s: %d/%d round trips agree (encode %.1fs, C decode %.1fs, largest output %d bytes) %s"
                  % (v.method, ok, len(cases), te, tc, maxout, sorted(tags.items())))
        res, res2, bad = seed_cases(cb, model, cexe)
        fails += bad
        per = {}
        for v, m, raw in res:
            per[v.method] = per.get(v.method, 0) + 1
        print("real members whose C decode equals the plain file: %s; re-encoded as literals and decoded again: %s; problems: %d"
              % (sorted(per.items()), sorted(v.method for v, m, raw in res2), len(bad)))
        stats, bad = reproduce_cases(cb, model)
        fails += bad
        print("real streams reproduced bit for bit from their description (members, blocks, bytes): %s; problems: %d"
              % (sorted(stats.items()), len(bad)))
        if not a.no_speed:
            rnd = random.Random(5)
            v = V(VARIANTS[1])
            cm = rand_cmds(rnd, v, 200000, max_out=10 ** 9, lit_p=0.7, alphabet=256)
            o, rc, err = common.run_lines([model], ["lhnewtime lh5 %s 65535,65535" % cmds_str(cm)], timeout=900)
            print("speed (lh5, random commands):", o[0] if o else err[-200:])
            v = V(VARIANTS[4])
            cm = [('L', rnd.randrange(256)) for _ in range(1000)]
            while out_len(cm) < 4 * 1024 * 1024:
                cm.append(('C', rnd.randrange(v.win), 256, False))
            o, rc, err = common.run_lines([model], ["lhnewtime lhx %s -" % cmds_str(cm)], timeout=900)
            print("speed (lhx, 4 MiB of long copies):", o[0] if o else err[-200:])
    finally:
        cb.close()
    for f in fails[:30]:
        print("FAIL", f)
    print("%s in %.0fs; %d problems" % ("PASS" if not fails else "FAIL", time.time() - t0, len(fails)))
    return 0 if not fails else 1


if __name__ == "__main__":
    sys.exit(main())

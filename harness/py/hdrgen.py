"""Generators of header field records (C05, C11, C12, C08, C18, C19)."""
import random, struct
import lhabuild as lb

METHODS = [b"-lh0-", b"-lh1-", b"-lh4-", b"-lh5-", b"-lh6-", b"-lh7-", b"-lhx-", b"-lz4-", b"-lz5-", b"-lzs-",
           b"-pm0-", b"-pm1-", b"-pm2-", b"-lhd-", b"-lh9-", b"-lhz-"]
OSES = [0, ord('M'), ord('w'), ord('W'), ord('U'), ord('2'), ord('m'), ord('A'), ord('a'), ord('J'), ord('C'), ord('F'),
        ord('R'), ord('T'), ord('9'), ord('K'), ord('3'), ord('H'), ord(' '), 0x7f, 0xff]
NAME_ALPHA = [b"a", b"B", b"z", b".", b"..", b"/", b"\\", b"\xff", b"|", b" ", b"_", b"\x01", b"\x80", b"X1", b"readme", b"DIR"]


def rname(rnd, maxlen=40, nul=0.03):
    n = rnd.choice([0, 1, 2, 3, 5, 8, 12, rnd.randrange(0, maxlen + 1)])
    out = b""
    while len(out) < n:
        out += rnd.choice(NAME_ALPHA)
        if rnd.random() < nul:
            out += b"\0"
    return out[:n]


def rexts(rnd, lv, hostile=False):
    exts = []
    k = rnd.choice([0, 0, 1, 2, 3, 5, 8])
    types = [0x00, 0x01, 0x02, 0x41, 0x50, 0x51, 0x52, 0x53, 0x54, 0xcc, 0x39, 0x3f, 0x7e]
    for _ in range(k):
        t = rnd.choice(types)
        if t == 0x00:
            p = b"\0\0" + (b"" if rnd.random() < 0.7 else bytes([rnd.randrange(256)]))
        elif t == 0x01:
            p = rname(rnd, 30)
        elif t == 0x02:
            s = rname(rnd, 30).replace(b"/", b"\xff")
            p = s + (b"\xff" if rnd.random() < 0.6 else b"")
        elif t == 0x41:
            p = struct.pack("<QQQ", rnd.getrandbits(64), rnd.getrandbits(64), rnd.getrandbits(64))
        elif t == 0x50:
            p = struct.pack("<H", rnd.choice([0o100644, 0o40755, 0o120777, 0o100000, rnd.getrandbits(16)]))
        elif t == 0x51:
            p = struct.pack("<HH", rnd.getrandbits(16), rnd.getrandbits(16))
        elif t in (0x52, 0x53):
            p = rname(rnd, 12)
        elif t == 0x54:
            p = struct.pack("<I", rnd.choice([0, 1, 2 ** 31, 2 ** 32 - 1, rnd.getrandbits(32)]))
        elif t == 0xcc:
            p = bytes(rnd.randrange(256) for _ in range(rnd.choice([12, 12, 14, 20])))
        else:
            p = bytes(rnd.randrange(256) for _ in range(rnd.randrange(0, 9)))
        if hostile and rnd.random() < 0.25:
            p = p[:rnd.randrange(0, len(p) + 1)]
        exts.append((t, p))
    return exts


def rfields(rnd, lv=None, hostile=False):
    lv = rnd.randrange(4) if lv is None else lv
    m = rnd.choice(METHODS)
    f = {"level": lv, "method": m, "clen": rnd.choice([0, 0, 1, 5, 9, 300]), "crc": rnd.getrandbits(16),
         "length": rnd.choice([0, 1, 2 ** 31, 2 ** 32 - 1, rnd.getrandbits(32), rnd.randrange(100000)]),
         "attr": rnd.choice([0x20, 0x10, 0, 0xff]), "os": rnd.choice(OSES)}
    if lv in (0, 1):
        f["time"] = rnd.choice([0, 1, 0x21, lb.dos_ftime(1999, 12, 31, 23, 59, 58), lb.dos_ftime(2038, 1, 19, 3, 14, 8),
                                lb.dos_ftime(2107, 12, 31, 23, 59, 58), rnd.getrandbits(32), rnd.getrandbits(32)])
        maxn = 200 if lv == 0 else 190
        f["name"] = rname(rnd, rnd.choice([12, 40, maxn]))
    else:
        f["time"] = rnd.choice([0, 1, 2 ** 31, 2 ** 32 - 1, rnd.getrandbits(32)])
    if lv == 0:
        r = rnd.random()
        if r < 0.25:
            body = bytes([rnd.choice([ord('U'), ord('K')]), 0]) + struct.pack("<I", rnd.getrandbits(32))
            if rnd.random() < 0.3:
                body += struct.pack("<I", rnd.getrandbits(32))     # OS-9/68k doubled time stamp
            body += struct.pack("<HHH", rnd.choice([0o100644, 0o40755, 0o120777, rnd.getrandbits(16)]),
                                rnd.getrandbits(16), rnd.getrandbits(16))
            f["area"] = body
        elif r < 0.4:
            a = bytearray(rnd.randrange(256) for _ in range(rnd.choice([22, 22, 24])))
            a[0] = ord('9'); a[9] = 0xcc; a[17] = a[1]; a[18] = a[2]
            f["area"] = bytes(a)
        elif r < 0.5:
            f["area"] = bytes(rnd.randrange(256) for _ in range(rnd.randrange(1, 14)))
        total = 22 + len(f["name"]) + len(f.get("area", b""))
        if total > 255:
            f["name"] = f["name"][:max(0, 255 - 22 - len(f.get("area", b"")))]
    else:
        f["exts"] = rexts(rnd, lv, hostile)
    if lv == 1 and 25 + len(f["name"]) > 255:
        f["name"] = f["name"][:230]
    return f


def member(f, data=None, rnd=None):
    """header bytes + member data of clen bytes"""
    hdr = lb.build_header(f)
    if data is None:
        data = bytes((i * 7 + 3) & 0xff for i in range(f["clen"]))
    return hdr, data

"""Parsers for real -pm2- / -pm1- streams into the stream DESCRIPTIONS of
coq/S_Pm.v (test helper: lets test_enc_pm.py check that the spec serialiser
reproduces the streams written by the real PMarc byte for byte).  Follows the
format as stated in S_Pm.v, not the C code."""

MTF0 = (list(range(0x20, 0x80)) + list(range(0x00, 0x20)) + list(range(0xa0, 0xe0)) +
        list(range(0x80, 0xa0)) + list(range(0xe0, 0x100)))


class Bits:
    def __init__(self, data):
        self.d = data
        self.p = 0

    def get(self, n):
        v = 0
        for _ in range(n):
            byte = self.d[self.p >> 3] if (self.p >> 3) < len(self.d) else 0      # zero extension
            v = (v << 1) | ((byte >> (7 - (self.p & 7))) & 1)
            self.p += 1
        return v


class Out:
    def __init__(self, fill):
        self.out = bytearray()
        self.mtf = list(MTF0)
        self.fill = fill

    def emit(self, b):
        self.out.append(b)
        self.mtf.remove(b)
        self.mtf.insert(0, b)

    def copy(self, dist, ln):
        for _ in range(ln):
            i = len(self.out) - 1 - dist
            self.emit(self.out[i] if i >= 0 else self.fill)


def canon_decoder(lens):
    """lens -> {(length, value): symbol}, canonical assignment by (length, symbol)"""
    m = {}
    code = 0
    for l in range(1, max(lens + [0]) + 1):
        for s, ls in enumerate(lens):
            if ls == l:
                m[(l, code)] = s
                code += 1
        code <<= 1
    return m


def read_sym(bits, table):
    """table: ('single', sym) or ('lens', lens)"""
    if table[0] == "single":
        return table[1]
    m = table[2]
    l, v = 0, 0
    while True:
        v = (v << 1) | bits.get(1)
        l += 1
        if (l, v) in m:
            return m[(l, v)]
        if l > 40:
            raise ValueError("no code")


PM2_LIT = [(0, 3), (8, 3), (16, 4), (32, 5), (64, 5), (96, 5), (128, 6), (192, 6)]
PM2_LEN = [(17, 3), (25, 3), (33, 5), (65, 6), (129, 7), (256, 0)]


def kraft_ok(lens):
    nz = [l for l in lens if l]
    m = max(nz)
    return len(nz) >= 2 and sum(1 << (m - l) for l in nz) == 1 << m


def parse_pm2(data, length):
    """-> (first bit, [ (code desc | None, off list | None, [cmds]) ], notes)"""
    bits = Bits(data)
    o = Out(0x20)
    first = bits.get(1)
    segs = []
    notes = []
    state = {"ct": None, "ctdesc": None, "need": False, "ot": None}

    def read_code():
        n = bits.get(5)
        mn = bits.get(3)
        state["need"] = n >= 10 and not (n == 29 and mn == 0)
        if mn == 0:
            state["ct"] = ("single", n - 1)
            return "S%d" % n
        lb = bits.get(3)
        lens = []
        for _ in range(n):
            v = bits.get(lb)
            lens.append(0 if v == 0 else mn + v - 1)
        if not kraft_ok(lens):
            notes.append("code table not complete: %s" % lens)
        state["ct"] = ("lens", lens, canon_decoder(lens))
        return "L%d.%d.%s" % (mn, lb, ",".join(map(str, lens)))

    def read_off(k):
        if not state["need"]:
            return None
        no = 5 + k if k < 3 else 8
        lens = [bits.get(3) for _ in range(no)]
        nz = [i for i, l in enumerate(lens) if l]
        if len(nz) == 1:
            state["ot"] = ("single", nz[0])
        else:
            if not nz or not kraft_ok(lens):
                notes.append("offset table of segment %d not single/complete: %s" % (k, lens))
            state["ot"] = ("lens", lens, canon_decoder(lens))
        return lens

    def header(k):
        cd = None
        od = None
        if k == 0:
            cd = read_code()
            od = read_off(0)
        elif k < 3:
            od = read_off(k)
        elif k == 3:
            if bits.get(1):
                cd = read_code()
            od = read_off(3)
        else:
            if bits.get(1):
                cd = read_code()
                od = read_off(k)
        return cd, od

    def seg_end(k):
        return [1024, 2048, 4096, 8192][k] if k < 4 else 8192 + 4096 * (k - 3)
    k = 0
    cd, od = header(0)
    cur = []
    segs.append((cd, od, cur))
    while len(o.out) < length:
        sym = read_sym(bits, state["ct"])
        if sym < 8:
            base, w = PM2_LIT[sym]
            p = base + bits.get(w)
            v = o.mtf[p]
            cur.append("B%02x" % v)
            o.emit(v)
        else:
            c = sym - 8
            if c < 15:
                ln = c + 2
            else:
                base, w = PM2_LEN[c - 15]
                ln = base + bits.get(w)
            if c == 0:
                dist = bits.get(6)
            elif c < 20:
                oc = read_sym(bits, state["ot"])
                dist = bits.get(6) if oc == 0 else (1 << (oc + 5)) + bits.get(oc + 5)
            else:
                dist = 0
            cur.append("C%d:%d" % (dist, ln))
            o.copy(dist, ln)
        if len(o.out) >= seg_end(k) and len(o.out) < length:
            k += 1
            cd, od = header(k)
            cur = []
            segs.append((cd, od, cur))
    return first, segs, notes, bytes(o.out), (bits.p + 7) // 8


def raw_pm2_line(first, segs):
    return "pm2raw %d %s" % (first, ";".join("%s|%s|%s" % (cd or "-", ",".join(map(str, od)) if od is not None else "-",
                                                            ",".join(c) if c else "-") for cd, od, c in segs))


# ---- pm1 ----
PM1_TREES = ["((((a b) c) d) (e f))", "(((a b) (c f)) (d e))", "(((a b) c) (d (e f)))", "((a (b c)) (d (e f)))",
             "((a (b d)) (c (e f)))", "((a (b (e f))) (c d))", "((a b) ((c d) (e f)))", "((a b) ((c (e f)) d))",
             "((a b) (c (d (e f))))", "(a (((b f) c) (d e)))", "(a (((b (e f)) c) d))", "(a (((b c) d) (e f)))",
             "(a ((b (c f)) (d e)))", "(a ((b c) (d (e f))))", "(a ((b (d (e f))) c))", "(a (b ((c d) (e f))))",
             "(a (b (c (d (e f)))))", "(((d e) c) (d e))", "((a (b e)) (c d))", "((a b) (c (d e)))",
             "(a (((b e) c) d))", "(a ((b c) (d e)))", "(a ((b (d e)) c))", "(a (b (c (d e))))",
             "(((a b) c) d)", "((a (b d)) c)", "((a b) (c d))", "(a ((b d) c))", "(a (b (c d)))", "(a (b c))", "(a b)", "a"]
PM1_BYTE = [(0, 4), (16, 4), (32, 5), (64, 6), (128, 6), (192, 6)]


def sexp(s):
    toks = s.replace("(", " ( ").replace(")", " ) ").split()
    pos = [0]

    def p():
        t = toks[pos[0]]
        pos[0] += 1
        if t == "(":
            l = p()
            r = p()
            pos[0] += 1
            return (l, r)
        return "abcdef".index(t)
    return p()


def parse_pm1(data, length):
    bits = Bits(data)
    o = Out(0)
    header = bits.get(5)
    tree = sexp(PM1_TREES[header])
    cmds = []

    def byte():
        t = tree
        while isinstance(t, tuple):
            t = t[bits.get(1)]
        base, w = PM1_BYTE[t]
        v = o.mtf[base + bits.get(w)]
        cmds.append("B%02x" % v)
        o.emit(v)

    def copy():
        pos = len(o.out)
        if bits.get(1) == 0:
            if pos >= 576 and bits.get(1):
                ty = 4
            else:
                ty = bits.get(1) if pos >= 64 else 0
        else:
            if pos >= 64 and bits.get(1) == 0:
                ty = 3
            elif pos >= 2624 and bits.get(1) == 0:
                ty = 5
            else:
                ty = 2
        if ty < 2:
            ln = 2
        else:
            x = bits.get(2)
            if x < 3:
                ln = x + 3
            else:
                x = bits.get(3)
                if x < 5:
                    ln = x + 6
                elif x == 5:
                    ln = 11 + bits.get(2)
                elif x == 6:
                    ln = 15 + bits.get(3)
                else:
                    x = bits.get(6)
                    ln = x + 23 if x < 62 else 85 + bits.get(5) if x == 62 else 117 + bits.get(7)
        base, full = [(0, 6), (64, 8), (0, 6), (64, 9), (576, 11), (2624, 13)][ty]
        w = full
        if ty >= 3:
            w = 8
            while w < full and not pos < base + (1 << w):
                w += 1
        dist = base + bits.get(w)
        if dist >= pos:
            raise ValueError("distance %d at position %d" % (dist, pos))
        cmds.append("C%d:%d" % (dist, ln))
        o.copy(dist, ln)
    used_at_end = None
    while len(o.out) < length:
        if bits.get(1) == 0:
            copy()
        else:
            x = bits.get(2)
            if x < 3:
                n = x + 1
            else:
                x = bits.get(3)
                if x < 7:
                    n = x + 4
                else:
                    x = bits.get(4)
                    n = x + 11 if x < 14 else 25 + bits.get(6) if x == 14 else 89 + bits.get(7)
            for _ in range(n):
                byte()
            if n < 216:
                if len(o.out) >= length:
                    used_at_end = bits.p          # the following copy lies beyond the declared length
                    break
                copy()
    return header, cmds, bytes(o.out), ((used_at_end or bits.p) + 7) // 8

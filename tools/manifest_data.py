NOTES = ("Machine-checked proof in Coq of a hand-written executable model, tied to /repo on every run by a translator "
         "(constants, tables, extents) and a correspondence run (extracted model vs. sanitizer build of the working tree). "
         "See DESIGN.md.")
_PENDING = "check not built yet in this round (work in progress; see DESIGN.md section 10) -- not a claim that the technique cannot apply"
CLAIMED = {
 "C17": {
  "text": "Theorems crc16_is_arc / crc16_split / crc16_pieces: the table-driven routine over the table regenerated from lib/crc16.c equals the bitwise CRC-16/ARC definition for every 16-bit state and byte list and every split (2^16 sweep by vm_compute lifted by sweep_spec, then induction). Closed under the global context.",
  "note": "Trusts: Coq kernel + vm_compute; translator (table read by compiling a probe that includes crc16.c); the 3-line loop is hand-modelled and tied by correspondence (all 2^16 states x 8 (quick) / 256 (thorough) byte values, thousands of buffers with splits and alignments) against the ASan build.",
  "technique": "Coq proof (finite sweep lifted + induction) over regenerated table; differential run model vs C",
 },
}
NOT_APPLICABLE = {("C%02d" % i): _PENDING for i in range(1, 21) if ("C%02d" % i) not in CLAIMED}

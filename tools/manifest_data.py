NOTES = ("Machine-checked proof in Coq of a hand-written executable model, tied to /repo on every run by a translator "
         "(constants, tables, extents) and a correspondence run (extracted model vs. sanitizer build of the working tree). "
         "See DESIGN.md.")
_PENDING = "check not built yet in this round (work in progress; see DESIGN.md section 10) -- not a claim that the technique cannot apply"
CLAIMED = {
 "C17": {
  "text": "Theorems crc16_is_arc / crc16_split / crc16_pieces: the table-driven routine over the table regenerated from lib/crc16.c equals the bitwise CRC-16/ARC definition for every 16-bit state and byte list and every split (2^16 sweep by vm_compute lifted by sweep_spec, then induction). Closed under the global context.",
  "note": "Trusts: Coq kernel + vm_compute; translator (table read by compiling a probe that includes crc16.c); the 3-line loop is hand-modelled and tied by correspondence (all 2^16 states x 8 (quick) / 256 (thorough) byte values, thousands of buffers with splits and alignments) against the ASan build.",
  "technique": "Coq proof (finite sweep lifted + induction) over regenerated table; differential run model vs C",
 },
 "C14": {
  "text": "Theorems reads_are_one_read / split_invariant / length_and_crc_faithful / stops_at_declared_length / read_at_most_asked over the model of lha_decoder_read (Decoder.v) for ANY inner decoder that returns chunks <= max_read: every read schedule (zeros included) returns in pieces exactly what one read of the total returns and ends in the same state; output never exceeds the declared length and nothing is decoded past it; get_length/get_crc are the length and CRC-16/ARC (via C17) of the bytes returned; no fault, no fuel exhaustion. Closed under the global context. The progress-callback clause is decided by the direct oracle and the correspondence only (no theorem yet).",
  "note": "Hand model tied by correspondence on the modelled methods and by C-only oracles (split invariance across schedules, length, independent CRC, <= declared, <= asked, exact progress sequence) on all 14 method names; read sizes < 2^62; callback returns <= requested bytes.",
  "technique": "Coq proof (big-step characterisation of the fill loop + composition of reads); differential run model vs C; C-only API oracles",
 },
 "C09": {
  "text": "Theorems: tree_decode.c build_tree never leaves its arrays, terminates and keeps the tree 'closed' for EVERY code-length vector and every prior tree state (uint16 and uint8 elements); read_from_tree on a closed tree stays in bounds, moves strictly forward and ends within tree_len steps for any input bits; lha_decoder_read never faults and never returns more than asked for any inner decoder. Per-decoder never-fault theorems (null, lz5, lzs, bit reader) are added as they are completed; lh_new/lh1/pm1/pm2 bodies are so far covered by the tree theorems, the correspondence and the sanitizer oracle only.",
  "note": "Array extents and table sizes regenerated from the C on every run; out-of-bounds accesses that land in valid memory are invisible to the sanitizer oracle and are covered only where a theorem exists.",
  "technique": "Coq proof of array-bounds invariants (closed-tree invariant, loop measures); grammar-aimed differential run against an ASan+bounds+null build",
 },
}
NOT_APPLICABLE = {("C%02d" % i): _PENDING for i in range(1, 21) if ("C%02d" % i) not in CLAIMED}

NOTES = ("Machine-checked proof in Coq of a hand-written executable model, tied to /repo on every run by a translator "
         "(constants, tables, extents) and a correspondence run (extracted model vs. sanitizer build of the working tree). "
         "See DESIGN.md.")
_PENDING = "check not built yet in this round (work in progress; see DESIGN.md section 10) -- not a claim that the technique cannot apply"
CLAIMED = {
 "C17": {
  "text": "Theorems crc16_is_arc / crc16_split / crc16_pieces: the table-driven routine over the table regenerated from lib/crc16.c equals the bitwise CRC-16/ARC definition for every 16-bit state and byte list and every split (2^16 sweep by vm_compute lifted by sweep_spec, then induction). Closed under the global context.",
  "note": "Trusts: Coq kernel + vm_compute; translator (table read by compiling a probe that includes crc16.c); the 3-line loop is hand-modelled and tied by correspondence (all 2^16 states x 8 (quick) / 256 (thorough) byte values, thousands of buffers with splits and alignments) against the ASan build.",
  "technique": "Coq proof (finite sweep lifted + induction) over regenerated table; differential run model vs C",
 },
 "C14": {
  "text": "Theorems reads_are_one_read / split_invariant / length_and_crc_faithful / stops_at_declared_length / read_at_most_asked over the model of lha_decoder_read (Decoder.v) for ANY inner decoder that returns chunks <= max_read: every read schedule (zeros included) returns in pieces exactly what one read of the total returns and ends in the same state; output never exceeds the declared length and nothing is decoded past it; get_length/get_crc are the length and CRC-16/ARC (via C17) of the bytes returned; no fault, no fuel exhaustion. Closed under the global context. The progress-callback clause is decided by the direct oracle and the correspondence only (no theorem yet).",
  "note": "Hand model tied by correspondence on the modelled methods and by C-only oracles (split invariance across schedules, length, independent CRC, <= declared, <= asked, exact progress sequence) on all 14 method names; read sizes < 2^62; callback returns <= requested bytes.",
  "technique": "Coq proof (big-step characterisation of the fill loop + composition of reads); differential run model vs C; C-only API oracles",
 },
 "C09": {
  "text": "Theorems: tree_decode.c build_tree never leaves its arrays, terminates and keeps the tree 'closed' for EVERY code-length vector and every prior tree state (uint16 and uint8 elements); read_from_tree on a closed tree stays in bounds, moves strictly forward and ends within tree_len steps for any input bits; lha_decoder_read never faults and never returns more than asked for any inner decoder. Whole-decoder theorems: null, lz5, lzs and the six lh_new instances (lhnew_never_faults for ANY callback incl. endless input; lhnew_read_returns when the input ends; params_ok facts about the regenerated constants, e.g. COPY_THRESHOLD+255 <= max_read, by vm_compute), bit reader for any callback. pm1 and pm2 whole decoders: pm1_never_faults / pm2_never_faults (any callback, any bytes; history list stays a pair of inverse permutations of 0..255; offset-tree leaves < 8 so the shift is defined; rebuild counter never wraps; the 32 pm1 byte-decode-tree rows checked by vm_compute sweep). lh1 body is so far covered by the tree theorems, the correspondence and the sanitizer oracle only (proof in progress).",
  "note": "Array extents and table sizes regenerated from the C on every run; out-of-bounds accesses that land in valid memory are invisible to the sanitizer oracle and are covered only where a theorem exists.",
  "technique": "Coq proof of array-bounds invariants (closed-tree invariant, loop measures); grammar-aimed differential run against an ASan+bounds+null build",
 },
 "C03": {
  "text": "Theorems stored_identity / stored_identity_short (stored methods deliver the bytes unchanged up to the declared length, for every read schedule), lz5_roundtrip and lzs_roundtrip (for EVERY list of well-formed commands incl. copies from never-written and self-overlapping ring positions, any unused flag bits, any trailing bytes, any read schedule: decode(serialise cmds) = what the commands denote on the ring machine of S_Larc.v), lz5_initial_ring (the five fill loops produce the closed-form LArc pattern; 2^12 sweep). Closed under the global context.",
  "note": "Spec (ring machine, serialisers) written independently in S_Larc.v; models Null.v/Lzs.v/Lz5.v/BitReader.v/Decoder.v tied to the C by correspondence (exhaustive over every ring position x {min,max} length, random command lists) and by the direct oracle C-output = extracted spec expansion. Source = full-read callback (a callback that returns 1 of 2 requested bytes makes -lz5- use an unwritten byte; outside the theorem).",
  "technique": "Coq proof (simulation of the spec ring machine, bit-reader refinement, chunks-to-API lemma); differential run + spec-encoder round trip on the C",
 },
 "C11": {
  "text": "Theorem returned_names_ok: for EVERY input stream state and any mktime, a header returned by the model of lha_file_header_read has a file name without '/' and a path whose '/'-terminated components are all real names (not empty, '.', '..') apart from one leading '/'; collapse_path_ok for every byte string (invariant of the in-place two-pointer machine); join_does_not_climb. Closed under the global context.",
  "note": "Header.v hand-modelled (all four levels, extended headers, symlink forms, case folding); tied by correspondence on every string over {'.','/','\\',0xFF,NUL,'a'} up to length 5 (quick) / 7 (thorough) through 8 name sources, with the path invariant also evaluated directly on the C's output.",
  "technique": "Coq proof (loop invariant of collapse_path; filename invariant through the whole parser); exhaustive small-string differential run + direct invariant oracle on the C",
 },
 "C12": {
  "text": "Theorem returned_header_is_intact: every header the model of the parser returns satisfies the independent predicate intact (level <= 3; level-0/1 checksum and length rules; level-2/3 length rules and word size; common CRC equals CRC-16 of the raw header with the field zeroed; file => name, directory => path), for EVERY input stream state; level_above_3_rejected; iteration_stops / next_file_stops_at_rejected_header (after the first rejected header every later call returns None and leaves the reader untouched). The level-1 checksum clause carries the guard 'header < 4 GiB' (beyond it the C's unsigned offset wraps; noted in DESIGN.md). Closed under the global context.",
  "note": "Tied by correspondence and by an independent Python intact() on all 255 substitutions at every byte, every truncation and length-field perturbations of generated headers (hundreds of thousands of cases per run).",
  "technique": "Coq proof (soundness of the parser w.r.t. an independent integrity predicate); exhaustive single-byte-substitution differential run + independent oracle",
 },
 "C05": {
  "text": "Theorem header_roundtrip (all four levels, no partial cases): for every field record satisfying wf_fields -- any field values, any list and order of extended headers (all ten known types, duplicates, unknown types), level-0 Unix/OS-9 areas, directories, symlinks in both stored forms -- and any following data, the model of lha_file_header_read applied to encode_header f ++ data returns exactly normalise f and leaves the stream at the member's data. Closed under the global context. wf_fields excludes: level-2 OS-9/68k without extended headers (rejected by the C: stated length 24 < 26), level-1 headers with >= 2^22 extended headers (model fuel) or >= 4 GiB (unsigned offset wrap in the C).",
  "note": "Spec S_Header.v (encoder + normalise) mirrors the Python reference lhabuild.py, which is the direct oracle of the check; mktime is a parameter of the theorem (executable instance mktime_utc used with TZ=UTC, checked against libc by every level-0/1 case).",
  "technique": "Coq proof (round trip parse o encode = normalise, extended-header walker as a fold); differential run + independent reference normaliser on the C",
 },
 "C01": {
  "text": "Partial. Proved: the fast LZ77 expansion equals the reference semantics; serialisation is blockwise; the bit reader returns exactly the next n <= 25 bits of the byte stream; tree_decode.c never faults and keeps the tree closed (C09). NOT yet proved: lhnew_roundtrip (decode(serialise sd) = expand(denote sd)) -- it is decided on every run by the direct oracle: streams produced by the extracted spec serialiser S_LhNew.v (every table form, block sizes 1..65535, window wrap) decoded by the C must equal the extracted spec expansion.",
  "note": "The spec serialiser reproduces every real lh4/5/6/7/x/lk7 member of the repository's archives bit for bit, so wf_stream covers what real encoders write.",
  "technique": "Spec-encoder round trip on the C (direct oracle) + differential run; Coq lemmas for bit reader, trees, LZ77 spec (round-trip theorem in progress)",
 },
 "C02": {
  "text": "Partial. The LZHUF encoder-side algorithm is transliterated in Lzhuf.v (independent of the decoder); the theorem lh1_refines_lzhuf (lock-step through every increment, exchange and rebuild) is NOT yet proved. Decided on every run by the direct oracle: command lists engineered for frequency ties and several rebuilds are encoded by the extracted LZHUF and must decode in the C to their LZ77 expansion.",
  "note": "Correspondence compares the model decoder (Lh1.v) with the C on the same streams.",
  "technique": "LZHUF-transliteration round trip on the C (direct oracle) + differential run; simulation proof in progress",
 },
 "C04": {
  "text": "Partial. Spec S_Pm.v (move-to-front with the PMarc order, pm1/pm2 serialisers incl. table re-reads in the middle of copies, wf predicates, zero-extension rule). Proved: history_list_is_mtf (the prev/next arrays of pma_common.c are the spec's move-to-front list after ANY byte sequence), build_tree_canonical (the tree builder yields the canonical prefix code of any complete length vector), pm2_roundtrip_partial (every single-segment literal-only stream < 1024 bytes with ANY well-formed code table, any trailing bytes, any read schedule decodes to its bytes). Copies, segment re-reads and pm1 round trips NOT yet proved; decided on every run by the direct oracle on the C for streams from the extracted serialisers (every rebuild point x every split of a copy, every pm1 start header and width threshold +-1).",
  "note": "The serialisers reproduce all 8 real pm1/pm2 members of the repository byte for byte.",
  "technique": "Coq proof (MTF refinement, canonical-code tree, literal round trip); spec-encoder round trip on the C (direct oracle) + differential run for the unproved part",
 },
 "C07": {
  "text": "Theorems crc16_error_superposition (CRC of corrupted data = CRC of the data xor CRC of the error pattern, any register, any length), burst16_detected / stored_member_burst16_detected (EVERY nonzero error pattern confined to 16 consecutive bits, bits numbered in the order CRC-16/ARC consumes them, changes the CRC of ANY data of any length, hence a stored member so corrupted is not reported good), verdict_crc_is_arc (the value compared with the header is CRC-16/ARC of the bytes produced, via C17). Closed under the global context. The verdict logic of lha_reader_check/extract and of the tool (t, x, exit status), and length mismatches, are decided by the oracle on the real tool: the bytes the tool delivers are measured independently (length, bitwise CRC) and its verdict must be 'good' iff they match the header.",
  "note": "MSB-first bit numbering would make an 11-bit pattern (01 C1 C0) undetected: documented in P_CrcBurst.v as examples; the property's burst clause is read in CRC consumption order.",
  "technique": "Coq proof (GF(2)-linearity of the table CRC + injectivity of the bit step); verdict oracle on the real tool over every single-bit flip, 16-bit bursts, length perturbations",
 },
 "C08": {
  "text": "Theorems header_parser_never_faults / archive_iteration_no_fault: for EVERY byte string, stream kind and mktime, the models of the input stream (incl. the self-extractor scan), the header parser for all four levels with every extended-header decoder, and the basic reader never perform an out-of-range access; *_returns: they return on every stream < 12 MiB (model fuel of the level-1 extended-header walk; unconditional for levels 0, 2, 3), skips return for amounts < 2^40. Decompressors: C09. lha_reader, extraction and the tool itself: sanitizer oracle and correspondence only (no theorem yet).",
  "note": "Tool runs as uid 65534 in a scratch directory with the sanitizer build in modes l v lv vv t p xn x xq2f e; 'never aborts' for causes outside the model (stack exhaustion in match_glob, exit(-1) on malloc failure in src/) is tested, not proved.",
  "technique": "Coq proof (no reachable Fault; loop measures); three-stream differential run + sanitizer oracle on library driver and tool",
 },
 "C15": {
  "text": "Partial. Theorems end_is_absorbing_next / end_is_absorbing_ops (once next_file has reported the end every later next_file reports it and read/check/extract fail, leaving reader and filesystem untouched), no_decode_outside_members (reads and checks on re-presented entries or before the first entry fail and change nothing). Closed under the global context. Independence of the header sequence and member bytes from the history, and the re-presentation order, are decided on every run by (1) the correspondence reader model = C on every protocol-respecting op sequence up to a depth bound and random ones, and (2) a metamorphic oracle on the C alone (same headers / same full-read result / same check verdict per member across runs that treat the other members differently and across stream kinds); two readers: interleaved and on two threads under ThreadSanitizer = the separate runs. The stream/basic-reader independence theorems are in progress (P_ReaderIndep.v).",
  "note": "ThreadSanitizer reports inside glibc's tzset_internal (called from mktime under a libc-internal lock TSan cannot see) are suppressed by harness/c/tsan.supp; nothing in lib/ is suppressed.",
  "technique": "Coq proof (absorbing end state) + differential run reader model vs C + metamorphic and two-reader/TSan oracles on the C",
 },
 "C16": {
  "text": "Theorems sfx_prefix_skipped (any prefix < 262152 bytes with no match/marker position before |P| in P++A leaves the stream exactly at A), sfx_one_decoy (marker + exactly one decoy), scan_independent_of_kind (the four stream kinds scan and read identically), sfx_prefix_skipped_any_chunking (any short-read pattern, headers below 256 KiB), sfx_literal_reading_refuted (the literal reading 'P contains no signature' is insufficient: known finding, witness zz-lh + archive with '-' as second byte). Closed under the global context. Equality of member data/verdicts across kinds beyond the scan rests on the correspondence and the tool oracle.",
  "note": "KNOWN_FINDINGS.txt lists the straddle finding (signature = a match position p < |P| with p + 7 > |P|); any other prefix failure is a violation.",
  "technique": "Coq proof (scan-window invariant: every position examined exactly once); differential run over four real stream kinds, prefix families, decoys; tool file-vs-stdin oracle",
 },
 "C18": {
  "text": "Theorem list_output_clean: for ARBITRARY header contents (names, paths, link targets, method field of any member), every mode l/lv/v/vv, quiet level, pattern list, clock and localtime, every byte the model of the list commands writes is printable ASCII or LF; safe_output_allowed / safe_output_id; the tool's own literals (column names, OS names, month names regenerated from src/list.c) are printable by vm_compute. The test/extract/print commands (t, x, xn, xq0-2, p, e) are decided by the byte scan of the real tool's stdout+stderr only (no model of src/extract.c yet).",
  "note": "Direct oracle independent of the model: every output byte of the sanitizer build of the tool on hostile archives must be in {0x20..0x7E, LF, CR, TAB}.",
  "technique": "Coq proof (image of the sanitiser, every formatter, generated literals) for the list commands; output byte scan of the real tool in all modes",
 },
 "C19": {
  "text": "ListOut.v is the executable statement of the Unix-LHA layout (columns regenerated from src/list.c). Theorems: list_output_rows (headings unless quiet >= 2, one row per member selected by the wildcards in archive order, each row a function of that member alone, footer), glob_correct (match_glob = the inductive '*'/'?' relation), selection_spec, footer_counts_and_sums (row count, true sums, ratio of sums), ratio_rounding_correct (exact nearest/ties-to-even decimal rounding of the binary32 ratio) and per-cell lemmas. Closed under the global context. The check compares the real tool byte for byte with the extracted reference.",
  "note": "localtime is a parameter (gmtime_utc with TZ=UTC in the runs); binary32 arithmetic is Coq's SpecFloat; footer sums are size_t.",
  "technique": "Coq proofs about the executable layout specification; byte-for-byte differential run of the real tool against the extracted reference rendering",
 },
}
NOT_APPLICABLE = {("C%02d" % i): _PENDING for i in range(1, 21) if ("C%02d" % i) not in CLAIMED}

#!/bin/sh
# confirm_seed.sh <id>: confirm a sub-agent's breaking change ourselves, in its scratch worktree /tmp/mut_<id>:
#  the patch is what is applied there, the tree builds, the repository's test suite passes with it,
#  the demonstration fails with the change and passes without it (clean worktree /tmp/mut_clean).
# Writes /tmp/mut_<id>_out/confirm.log and prints a one-line verdict.
id="$1"; pre="${2:-mut}"; wt=/tmp/${pre}_$id; out=/tmp/${pre}_${id}_out; log=$out/confirm.log
: > $log
[ -d /tmp/mut_clean ] || /verif/tools/mk_worktree.sh /tmp/mut_clean >>$log 2>&1
cd $wt || exit 2
git diff > $out/applied.diff
if ! diff -q $out/applied.diff $out/patch.diff >/dev/null 2>&1; then echo "NOTE: worktree diff differs from patch.diff (using worktree diff)" >>$log; fi
(make -j8 >>$log 2>&1 && make -j8 check > $out/suite.log 2>&1)
pass=$(grep -c "^PASS:" $out/suite.log); fail=$(grep -c "^FAIL:\|^ERROR:" $out/suite.log)
echo "suite: PASS=$pass FAIL=$fail" >>$log
(cd /tmp/mut_clean && make -j8 >>$log 2>&1)
sh $out/demo.sh $wt > $out/demo_mutated.log 2>&1; rm=$?
sh $out/demo.sh /tmp/mut_clean > $out/demo_clean.log 2>&1; rc=$?
echo "demo: mutated rc=$rm clean rc=$rc" >>$log
echo "$id suite PASS=$pass FAIL=$fail demo_mutated_rc=$rm demo_clean_rc=$rc"

#!/usr/bin/env python3
"""Translator: regenerates coq/Generated.v from the C sources of /repo.

Values are obtained by compiling and running small probe programs that
#include the C file itself, so tables, macro values, array extents and sizes
are the compiler's evaluation of what the source says now.  Nothing here
guesses at C syntax with regular expressions.

Usage: gen_constants.py [--repo /repo] [--out coq/Generated.v]
Exit 0: file is up to date (rewritten only if its content changed).
Exit 2: a probe could not be built or run (the tie is broken).
"""
import os, subprocess, sys, tempfile, shutil, argparse, json

HERE = os.path.dirname(os.path.abspath(__file__))
VERIF = os.path.dirname(HERE)

# Each probe: C file (relative to repo), list of items.
# item kinds:
#   ("table", c_expr_array, coq_name)            -- array of integers
#   ("macro", c_expr, coq_name)                  -- integer expression
#   ("str",   c_expr, coq_name)                  -- C string -> list of bytes
#   ("dtype", c_var, coq_prefix)                 -- LHADecoderType max_read/block_size
#   ("raw", c_code_printing_lines, None)         -- custom C statements printing "DEF name value" lines
#   ("local", c_function, c_local_var, coq_name) -- sizeof a function-local variable, read from the
#                                                   compiler's debug information (gdb "info scope")
PROBES = []
FAILED = []      # items that could not be read from the source in this run (their previous values are kept)
OLD_DEFS, OLD_TABLES = {}, {}     # the values in the existing Generated.v

def probe(cfile, items, pre=""):
    PROBES.append((cfile, items, pre))

probe("lib/crc16.c", [("table", "crc16_table", "crc16_table")])
probe("lib/null_decoder.c", [("macro", "BLOCK_READ_SIZE", "null_BLOCK_READ_SIZE"),
                             ("dtype", "lha_null_decoder", "null")])
probe("lib/lzs_decoder.c", [("macro", "RING_BUFFER_SIZE", "lzs_RING_BUFFER_SIZE"),
                            ("macro", "START_OFFSET", "lzs_START_OFFSET"),
                            ("macro", "THRESHOLD", "lzs_THRESHOLD"),
                            ("macro", "OUTPUT_BUFFER_SIZE", "lzs_OUTPUT_BUFFER_SIZE"),
                            ("macro", "sizeof(((LHALZSDecoder*)0)->ringbuf)", "lzs_ringbuf_extent"),
                            ("dtype", "lha_lzs_decoder", "lzs")])
probe("lib/lz5_decoder.c", [("macro", "RING_BUFFER_SIZE", "lz5_RING_BUFFER_SIZE"),
                            ("macro", "START_OFFSET", "lz5_START_OFFSET"),
                            ("macro", "THRESHOLD", "lz5_THRESHOLD"),
                            ("macro", "OUTPUT_BUFFER_SIZE", "lz5_OUTPUT_BUFFER_SIZE"),
                            ("macro", "sizeof(((LHALZ5Decoder*)0)->ringbuf)", "lz5_ringbuf_extent"),
                            ("dtype", "lha_lz5_decoder", "lz5")])

LHNEW = [("lh4", "lib/lh5_decoder.c", "lha_lh4_decoder"),
         ("lh5", "lib/lh5_decoder.c", "lha_lh5_decoder"),
         ("lh6", "lib/lh6_decoder.c", "lha_lh6_decoder"),
         ("lh7", "lib/lh7_decoder.c", "lha_lh7_decoder"),
         ("lhx", "lib/lhx_decoder.c", "lha_lhx_decoder"),
         ("lk7", "lib/lk7_decoder.c", "lha_lk7_decoder")]
_seen = set()
for (nm, cf, var) in LHNEW:
    items = []
    if cf not in _seen:
        _seen.add(cf)
        p = nm if nm != "lh4" else "lh5"
        items += [("macro", "HISTORY_BITS", p + "_HISTORY_BITS"),
                  ("macro", "OFFSET_BITS", p + "_OFFSET_BITS"),
                  ("macro", "RING_BUFFER_SIZE", p + "_RING_BUFFER_SIZE"),
                  ("macro", "NUM_CODES", p + "_NUM_CODES"),
                  ("macro", "MAX_TEMP_CODES", p + "_MAX_TEMP_CODES"),
                  ("macro", "COPY_THRESHOLD", p + "_COPY_THRESHOLD"),
                  ("macro", "OUTPUT_BUFFER_SIZE", p + "_OUTPUT_BUFFER_SIZE"),
                  ("macro", "sizeof(((LHANewDecoder*)0)->ringbuf)", p + "_ringbuf_extent"),
                  ("macro", "sizeof(((LHANewDecoder*)0)->code_tree)/sizeof(TreeElement)", p + "_code_tree_extent"),
                  ("macro", "sizeof(((LHANewDecoder*)0)->offset_tree)/sizeof(TreeElement)", p + "_offset_tree_extent"),
                  ("macro", "sizeof(TreeElement)", p + "_tree_element_size"),
                  ("macro", "TREE_NODE_LEAF", p + "_TREE_NODE_LEAF"),
                  ("macro", "TEMP_CODE_BITS", p + "_TEMP_CODE_BITS"),
                  ("macro", "MAX_OFFSET_CODES", p + "_MAX_OFFSET_CODES"),
                  ("macro", "sizeof(((LHANewDecoder*)0)->temp_tree)/sizeof(TreeElement)", p + "_temp_tree_extent")]
        items.append(("dtype", var, nm))
        if nm == "lh4":
            items.append(("dtype", "lha_lh5_decoder", "lh5"))
        if nm == "lh5":
            continue
        probe(cf, items)
    # lh4 and lh5 share the file and are handled together above

probe("lib/lh1_decoder.c", [
    ("macro", "RING_BUFFER_SIZE", "lh1_RING_BUFFER_SIZE"),
    ("macro", "COPY_THRESHOLD", "lh1_COPY_THRESHOLD"),
    ("macro", "OUTPUT_BUFFER_SIZE", "lh1_OUTPUT_BUFFER_SIZE"),
    ("macro", "NUM_CODES", "lh1_NUM_CODES"),
    ("macro", "NUM_TREE_NODES", "lh1_NUM_TREE_NODES"),
    ("macro", "NUM_OFFSETS", "lh1_NUM_OFFSETS"),
    ("macro", "MIN_OFFSET_LENGTH", "lh1_MIN_OFFSET_LENGTH"),
    ("macro", "TREE_REORDER_LIMIT", "lh1_TREE_REORDER_LIMIT"),
    ("macro", "sizeof(((LHALH1Decoder*)0)->nodes)/sizeof(Node)", "lh1_nodes_extent"),
    ("macro", "sizeof(((LHALH1Decoder*)0)->leaf_nodes)/sizeof(uint16_t)", "lh1_leaf_nodes_extent"),
    ("macro", "sizeof(((LHALH1Decoder*)0)->groups)/sizeof(uint16_t)", "lh1_groups_extent"),
    ("macro", "sizeof(((LHALH1Decoder*)0)->group_leader)/sizeof(uint16_t)", "lh1_group_leader_extent"),
    ("macro", "sizeof(((LHALH1Decoder*)0)->offset_lookup)", "lh1_offset_lookup_extent"),
    ("macro", "sizeof(((LHALH1Decoder*)0)->offset_lengths)", "lh1_offset_lengths_extent"),
    ("macro", "sizeof(((LHALH1Decoder*)0)->ringbuf)", "lh1_ringbuf_extent"),
    ("table", "offset_fdist", "lh1_offset_fdist"),
    ("dtype", "lha_lh1_decoder", "lh1")])

probe("lib/pm2_decoder.c", [
    ("macro", "RING_BUFFER_SIZE", "pm2_RING_BUFFER_SIZE"),
    ("macro", "OUTPUT_BUFFER_SIZE", "pm2_OUTPUT_BUFFER_SIZE"),
    ("macro", "sizeof(((LHAPM2Decoder*)0)->ringbuf)", "pm2_ringbuf_extent"),
    ("macro", "sizeof(((LHAPM2Decoder*)0)->code_tree)", "pm2_code_tree_extent"),
    ("macro", "sizeof(((LHAPM2Decoder*)0)->offset_tree)", "pm2_offset_tree_extent"),
    ("macro", "TREE_NODE_LEAF", "pm2_TREE_NODE_LEAF"),
    ("macro", "CODE_TREE_ELEMENTS", "pm2_CODE_TREE_ELEMENTS"),
    ("macro", "OFFSET_TREE_ELEMENTS", "pm2_OFFSET_TREE_ELEMENTS"),
    ("macro", "sizeof(TreeElement)", "pm2_tree_element_size"),
    ("macro", "(size_t) -1", "pm2_SIZE_MAX"),
    ("macro", "sizeof(((HistoryLinkedList*)0)->history)/sizeof(HistoryNode)", "pma_history_extent"),
    ("local", "read_code_tree", "code_lengths", "pm2_code_lengths_extent"),
    ("local", "read_offset_tree", "offset_lengths", "pm2_offset_lengths_extent"),
    ("raw", r'''
    printf("TABLE pm2_history_decode_offset"); for (i = 0; i < sizeof(history_decode)/sizeof(*history_decode); ++i) printf(" %u", (unsigned) history_decode[i].offset); printf("\n");
    printf("TABLE pm2_history_decode_bits"); for (i = 0; i < sizeof(history_decode)/sizeof(*history_decode); ++i) printf(" %u", (unsigned) history_decode[i].bits); printf("\n");
    printf("TABLE pm2_copy_decode_offset"); for (i = 0; i < sizeof(copy_decode)/sizeof(*copy_decode); ++i) printf(" %u", (unsigned) copy_decode[i].offset); printf("\n");
    printf("TABLE pm2_copy_decode_bits"); for (i = 0; i < sizeof(copy_decode)/sizeof(*copy_decode); ++i) printf(" %u", (unsigned) copy_decode[i].bits); printf("\n");
    ''', None),
    ("dtype", "lha_pm2_decoder", "pm2")])

probe("lib/pm1_decoder.c", [
    ("macro", "RING_BUFFER_SIZE", "pm1_RING_BUFFER_SIZE"),
    ("macro", "MAX_BYTE_BLOCK_LEN", "pm1_MAX_BYTE_BLOCK_LEN"),
    ("macro", "MAX_COPY_BLOCK_LEN", "pm1_MAX_COPY_BLOCK_LEN"),
    ("macro", "OUTPUT_BUFFER_SIZE", "pm1_OUTPUT_BUFFER_SIZE"),
    ("macro", "sizeof(((LHAPM1Decoder*)0)->ringbuf)", "pm1_ringbuf_extent"),
    ("raw", r'''
    printf("TABLE pm1_copy_ranges_offset"); for (i = 0; i < sizeof(copy_ranges)/sizeof(*copy_ranges); ++i) printf(" %u", (unsigned) copy_ranges[i].offset); printf("\n");
    printf("TABLE pm1_copy_ranges_bits"); for (i = 0; i < sizeof(copy_ranges)/sizeof(*copy_ranges); ++i) printf(" %u", (unsigned) copy_ranges[i].bits); printf("\n");
    printf("TABLE pm1_byte_ranges_offset"); for (i = 0; i < sizeof(byte_ranges)/sizeof(*byte_ranges); ++i) printf(" %u", (unsigned) byte_ranges[i].offset); printf("\n");
    printf("TABLE pm1_byte_ranges_bits"); for (i = 0; i < sizeof(byte_ranges)/sizeof(*byte_ranges); ++i) printf(" %u", (unsigned) byte_ranges[i].bits); printf("\n");
    printf("TABLE pm1_byte_decode_trees"); for (i = 0; i < sizeof(byte_decode_trees)/sizeof(byte_decode_trees[0]); ++i) { unsigned j; for (j = 0; j < sizeof(byte_decode_trees[0]); ++j) printf(" %u", (unsigned) byte_decode_trees[i][j]); } printf("\n");
    printf("DEF pm1_byte_decode_tree_row %u\n", (unsigned) sizeof(byte_decode_trees[0]));
    ''', None),
    ("dtype", "lha_pm1_decoder", "pm1")])


def write_probe(repo, cfile, items, pre, path):
    lines = []
    lines.append("#define main lhasa_probe_main_")
    lines.append(pre)
    lines.append('#include "%s"' % os.path.join(repo, cfile))
    lines.append("#undef main")
    lines.append("#include <stdio.h>")
    lines.append("int main(void) { unsigned long i; (void) i;")
    for it in items:
        kind = it[0]
        if kind == "table":
            _, expr, name = it
            lines.append('printf("TABLE %s"); for (i = 0; i < sizeof(%s)/sizeof((%s)[0]); ++i) printf(" %%llu", (unsigned long long) (%s)[i]); printf("\\n");'
                         % (name, expr, expr, expr))
        elif kind == "macro":
            _, expr, name = it
            lines.append('printf("DEF %s %%llu\\n", (unsigned long long) (%s));' % (name, expr))
        elif kind == "str":
            _, expr, name = it
            lines.append('{ const unsigned char *s_ = (const unsigned char *) (%s); printf("TABLE %s"); for (; *s_; ++s_) printf(" %%u", (unsigned) *s_); printf("\\n"); }' % (expr, name))
        elif kind == "dtype":
            _, var, pfx = it
            lines.append('printf("DEF %s_max_read %%llu\\n", (unsigned long long) %s.max_read);' % (pfx, var))
            lines.append('printf("DEF %s_block_size %%llu\\n", (unsigned long long) %s.block_size);' % (pfx, var))
            lines.append('printf("DEF %s_extra_size %%llu\\n", (unsigned long long) %s.extra_size);' % (pfx, var))
        elif kind == "raw":
            lines.append(it[1])
    lines.append("return 0; }")
    with open(path, "w") as f:
        f.write("\n".join(lines) + "\n")


def local_sizeof(exe, func, var):
    """Size in bytes of a local variable of a function, as recorded by the
    compiler in the debug information of the probe executable."""
    try:
        r = subprocess.run(["gdb", "-batch", "-nx", "-ex", "info scope %s" % func, exe],
                           stdout=subprocess.PIPE, stderr=subprocess.STDOUT, timeout=60)
    except (OSError, subprocess.TimeoutExpired):
        return None
    import re
    m = re.search(r"Symbol %s is [^.]*?length (\d+)\." % re.escape(var), r.stdout.decode(errors="replace"), re.S)
    return int(m.group(1)) if m else None


def include_flags(repo):
    flags = ["-I" + repo, "-I" + os.path.join(repo, "lib"), "-I" + os.path.join(repo, "lib/public"),
             "-I" + os.path.join(repo, "src")]
    if not os.path.exists(os.path.join(repo, "config.h")):
        flags.append("-I" + os.path.join(VERIF, "harness/c/fallback"))
    return flags


def run_probes(repo, extra=None):
    defs = []   # (name, value) in order
    tables = []  # (name, [values])
    tmp = tempfile.mkdtemp(prefix="lhasa_probe_")
    try:
        allp = list(PROBES) + list(extra or [])
        # a static library of the whole of lib/ so that probes of files that call into
        # other files link; the probe's own copy of the included file wins
        libsrc = ["crc16.c", "ext_header.c", "lh1_decoder.c", "lh5_decoder.c", "lh6_decoder.c", "lh7_decoder.c",
                  "lhx_decoder.c", "lk7_decoder.c", "lha_arch_unix.c", "lha_decoder.c", "lha_endian.c",
                  "lha_file_header.c", "lha_input_stream.c", "lha_basic_reader.c", "lha_reader.c", "lz5_decoder.c",
                  "lzs_decoder.c", "macbinary.c", "null_decoder.c", "pm1_decoder.c", "pm2_decoder.c"]
        objs = []
        cps = []
        for f in libsrc:
            o = os.path.join(tmp, f + ".o")
            objs.append(o)
            cps.append(subprocess.Popen(["cc", "-w", "-O0", "-DHAVE_CONFIG_H", "-c"] + include_flags(repo) +
                                        [os.path.join(repo, "lib", f), "-o", o],
                                        stdout=subprocess.PIPE, stderr=subprocess.STDOUT))
        for f, p in zip(libsrc, cps):
            out, _ = p.communicate()
            if p.returncode != 0:
                sys.stderr.write("translator: cannot compile lib/%s:\n%s\n" % (f, out.decode(errors="replace")[-2000:]))
                return None
        lib = os.path.join(tmp, "libprobe.a")
        if subprocess.run(["ar", "rcs", lib] + objs).returncode != 0:
            return None
        def build_and_run(tag, cfile, items, pre):
            """(ok, defs, tables, message) for one probe program"""
            src = os.path.join(tmp, "probe%s.c" % tag)
            exe = os.path.join(tmp, "probe%s" % tag)
            write_probe(repo, cfile, items, pre, src)
            cmd = ["cc", "-w", "-O0", "-g", "-DHAVE_CONFIG_H"] + include_flags(repo) + [src, lib, "-o", exe, "-Wl,--allow-multiple-definition"]
            p = subprocess.run(cmd, stdout=subprocess.PIPE, stderr=subprocess.STDOUT)
            if p.returncode != 0:
                return False, [], [], "cannot compile probe for %s:\n%s" % (cfile, p.stdout.decode(errors="replace")[-1500:])
            try:
                r = subprocess.run([exe], stdout=subprocess.PIPE, stderr=subprocess.STDOUT, timeout=60)
            except subprocess.TimeoutExpired:
                return False, [], [], "probe for %s does not terminate" % cfile
            if r.returncode != 0:
                return False, [], [], "probe for %s failed" % cfile
            d, t = [], []
            for line in r.stdout.decode().splitlines():
                parts = line.split()
                if not parts:
                    continue
                if parts[0] == "DEF":
                    d.append((parts[1], int(parts[2])))
                elif parts[0] == "TABLE":
                    t.append((parts[1], [int(x) for x in parts[2:]]))
            for it in items:
                if it[0] == "local":
                    v = local_sizeof(exe, it[1], it[2])
                    if v is None:
                        return False, [], [], "no debug information for %s in %s (%s)" % (it[2], it[1], cfile)
                    d.append((it[3], v))
            return True, d, t, ""

        from concurrent.futures import ThreadPoolExecutor
        with ThreadPoolExecutor(max_workers=16) as ex:
            results = list(ex.map(lambda kp: build_and_run(str(kp[0]), *kp[1]), enumerate(allp)))
        for k, ((cfile, items, pre), (ok, d, t, msg)) in enumerate(zip(allp, results)):
            if ok:
                defs += d
                tables += t
                continue
            # the probe as a whole does not build any more (an identifier was renamed, a field removed ...):
            # item by item, so that only what really cannot be read keeps its previous value
            for j, it in enumerate(items):
                ok1, d1, t1, msg1 = build_and_run("%d_%d" % (k, j), cfile, [it], pre)
                if ok1:
                    defs += d1
                    tables += t1
                else:
                    what = it[2] if it[0] in ("table", "macro", "str", "dtype") else (it[3] if it[0] == "local" else "raw block %d" % j)
                    FAILED.append({"file": cfile, "item": str(what), "kind": it[0], "message": msg1[-800:]})
                    # the previous values, at the same place in the file (so that nothing else is rebuilt)
                    if it[0] == "macro":
                        names = [it[2]]
                    elif it[0] == "local":
                        names = [it[3]]
                    elif it[0] == "dtype":
                        names = [it[2] + "_max_read", it[2] + "_block_size", it[2] + "_extra_size"]
                    else:
                        names = []
                    for nm in names:
                        if nm in OLD_DEFS:
                            defs.append((nm, OLD_DEFS[nm]))
                    if it[0] in ("table", "str") and it[2] in OLD_TABLES:
                        tables.append((it[2], OLD_TABLES[it[2]]))
                    sys.stderr.write("translator: %s: %s cannot be read: %s\n" % (cfile, what, msg1[-300:]))
    finally:
        shutil.rmtree(tmp, ignore_errors=True)
    return defs, tables


def render(defs, tables):
    out = []
    out.append("(* Generated.v -- REGENERATED from /repo's C sources on every run by")
    out.append("   tools/gen_constants.py.  Do not edit. *)")
    out.append("From Coq Require Import NArith List.")
    out.append("Import ListNotations.")
    out.append("Local Open Scope N_scope.")
    out.append("")
    seen = set()
    for name, v in defs:
        if name in seen:
            continue
        seen.add(name)
        out.append("Definition %s : N := %d." % (name, v))
    out.append("")
    for name, vals in tables:
        if name in seen:
            continue
        seen.add(name)
        out.append("Definition %s : list N :=" % name)
        body = []
        for i in range(0, len(vals), 12):
            body.append("   " + "; ".join(str(x) for x in vals[i:i + 12]))
        out.append("  [" + ";\n".join(body).lstrip() + "].")
        out.append("Definition %s_len : N := %d." % (name, len(vals)))
    out.append("")
    return "\n".join(out)


def main():
    ap = argparse.ArgumentParser()
    ap.add_argument("--repo", default="/repo")
    ap.add_argument("--out", default=os.path.join(VERIF, "coq/Generated.v"))
    a = ap.parse_args()
    sys.path.insert(0, HERE)
    extra = []
    try:
        import gen_more
        extra = gen_more.PROBES
    except ImportError:
        pass
    if os.path.exists(a.out):
        import re
        prev = open(a.out).read()
        for m in re.finditer(r"^Definition (\w+) : N := (\d+)\.", prev, re.M):
            OLD_DEFS[m.group(1)] = int(m.group(2))
        for m in re.finditer(r"^Definition (\w+) : list N :=\s*\[([^\]]*)\]\.", prev, re.M):
            OLD_TABLES[m.group(1)] = [int(x) for x in re.findall(r"\d+", m.group(2))]
    r = run_probes(a.repo, extra)
    status = os.path.join(VERIF, "build", "translator_status.json")
    os.makedirs(os.path.dirname(status), exist_ok=True)
    if r is None:
        json.dump({"global": True, "failed": FAILED}, open(status, "w"))
        return 2
    if FAILED:
        # whatever a failed item used to define and nothing defines now (raw blocks: their names are not known in
        # advance) keeps its previous value, at the end of the file
        defs, tables = r
        have = set(n for n, _ in defs) | set(n for n, _ in tables) | set(n + "_len" for n, _ in tables)
        for n, v in OLD_DEFS.items():
            if n not in have and not (n.endswith("_len") and n[:-4] in OLD_TABLES):
                defs.append((n, v))
        for n, v in OLD_TABLES.items():
            if n not in have:
                tables.append((n, v))
    text = render(*r)
    old = None
    if os.path.exists(a.out):
        old = open(a.out).read()
    json.dump({"global": False, "failed": FAILED}, open(status, "w"))
    if old != text:
        with open(a.out, "w") as f:
            f.write(text)
        print("translator: Generated.v rewritten" + (" (%d items kept from the previous run)" % len(FAILED) if FAILED else ""))
    else:
        print("translator: Generated.v unchanged")
    return 3 if FAILED else 0


if __name__ == "__main__":
    sys.exit(main())

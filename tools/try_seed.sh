#!/bin/sh
# try_seed.sh <seed-id> <check-id>... : run the quick checks against a tree with seeded/<seed-id>/patch.diff applied.
# While sub-agents are reading /repo the change is applied to a scratch export of /repo's HEAD (LHASA_REPO) instead of
# /repo itself; with --in-repo it is applied to /repo (git apply) and undone straight afterwards (git checkout -- .).
# The checks are then re-run on /repo so that evidence/ and coq/Generated.v describe the unchanged tree again.
inrepo=0; [ "$1" = "--in-repo" ] && { inrepo=1; shift; }
sid="$1"; shift
patch=/verif/seeded/$sid/patch.diff; [ -f "$patch" ] || patch=/tmp/mut_${sid}_out/patch.diff
if [ $inrepo = 1 ]; then
  git -C /repo apply "$patch" || exit 2
  for c in "$@"; do /verif/check $c --tier quick 2>&1 | grep -v "^KNOWN-FINDING" | tail -3; done
  git -C /repo checkout -- .
else
  d=/tmp/seedtree_$sid; rm -rf $d; mkdir -p $d; git -C /repo archive HEAD | tar -x -C $d
  for f in config.h; do [ -f /repo/$f ] && cp /repo/$f $d/; done
  (cd $d && git init -q . 2>/dev/null; git apply "$patch") || { echo "patch does not apply"; exit 2; }
  for c in "$@"; do LHASA_REPO=$d /verif/check $c --tier quick 2>&1 | grep -v "^KNOWN-FINDING" | tail -3; done
  rm -rf $d
fi
echo "--- unchanged tree again:"
for c in "$@"; do /verif/check $c --tier quick 2>&1 | tail -1; done

#!/usr/bin/env python3
"""Writes MANIFEST.json from tools/manifest_data.py (claimed checks) so the
file is always schema-valid and in step with what exists."""
import json, os, sys
HERE = os.path.dirname(os.path.abspath(__file__))
VERIF = os.path.dirname(HERE)
sys.path.insert(0, HERE)
import manifest_data as md

checks = []
for pid in sorted(md.CLAIMED):
    c = md.CLAIMED[pid]
    checks.append({
        "property_id": pid,
        "quick_cmd": "./check %s --tier quick" % pid,
        "thorough_cmd": "./check %s --tier thorough" % pid,
        "evidence_file": "evidence/%s.json" % pid,
        "replay_cmd_template": "./check --replay {path}",
        "engine": "coq-proofs+correspondence",
        "level_claimed": {"category": "proof", "text": c["text"], "design_ref": c.get("ref", "DESIGN.md section 7, " + pid)},
        "level_note": c["note"],
        "technique": c["technique"],
    })
na = [{"property_id": p, "reason": r} for p, r in sorted(md.NOT_APPLICABLE.items())]
m = {
    "version": 1,
    "setup_cmd": "./check --setup",
    "hooks": {
        "guard": "LHASA_VERIF",
        "enable": "no guarded code in /repo (no hook commits): the harness compiles /repo's unmodified sources itself; -DLHASA_VERIF only switches on code in the harness's own drivers (harness/c), and allocation tracing / failure injection is done at link time (-Wl,--wrap=malloc,calloc,realloc,strdup,free,fopen,fclose with harness/c/verif_alloc.c)",
        "baseline_off_cmd": "make -C /repo check",
        "source_commits": [],
        "add_only": True,
    },
    "engines": [
        {"name": "coq-proofs", "path": "coq/", "serves_properties": sorted(md.CLAIMED), "kind_free_text": "Coq 8.16.1 development: executable Gallina model, specs, theorems"},
        {"name": "translator", "path": "tools/gen_constants.py", "serves_properties": sorted(md.CLAIMED), "kind_free_text": "regenerates tables, macro values, array extents from the C sources on every run"},
        {"name": "correspondence", "path": "harness/", "serves_properties": sorted(md.CLAIMED), "kind_free_text": "runs the extracted model and the C (ASan+bounds+null build of the working tree) on the same cases"},
    ],
    "checks": checks,
    "notes": md.NOTES,
    "not_applicable": na,
}
json.dump(m, open(os.path.join(VERIF, "MANIFEST.json"), "w"), indent=1)
print("MANIFEST.json: %d claimed, %d not claimed" % (len(checks), len(na)))

#!/bin/sh
# try_harmless.sh <n>... : run every quick check against a scratch export of /repo's HEAD with the behaviour-preserving
# patch seeded/harmless/r<n>.diff applied (LHASA_REPO), to see which checks raise an alarm on code where the properties hold.
here=$(cd "$(dirname "$0")/.." && pwd)
for n in "$@"; do
  d=/tmp/harmless_$n; rm -rf $d; mkdir -p $d; git -C /repo archive HEAD | tar -x -C $d
  [ -f /repo/config.h ] && cp /repo/config.h $d/
  (cd $d && git init -q . 2>/dev/null; git apply $here/seeded/harmless/r$n.diff) || { echo "r$n: patch does not apply"; continue; }
  for c in C01 C02 C03 C04 C05 C06 C07 C08 C09 C10 C11 C12 C13 C14 C15 C16 C17 C18 C19 C20; do
    echo "r$n $c: $(LHASA_REPO=$d $here/check $c --tier quick 2>&1 | grep -v KNOWN-FINDING | tail -1)"
  done
  rm -rf $d
done

#!/bin/sh
# handle_seed.sh <property id> <worktree prefix, e.g. mut3> <suffix, e.g. c> [check ids...]
# stage a sub-agent's change under seeded/<id><suffix>, confirm it (suite passes, demo fails/passes) and run the checks on it
id="$1"; pre="$2"; suf="$3"; shift 3
checks="${*:-$id}"
out=/tmp/${pre}_${id}_out; sid=${id}${suf}
mkdir -p /verif/seeded/$sid
(cd $out && for f in *; do case $f in PROMPT.txt|confirm.out|applied.diff|suite.log|*.log|work|*.o) ;; *) cp -r $f /verif/seeded/$sid/;; esac; done)
/verif/tools/confirm_seed.sh $id $pre > $out/confirm.out 2>&1
cat $out/confirm.out
cp $out/confirm.log /verif/seeded/$sid/ 2>/dev/null
/verif/tools/try_seed.sh $sid $checks 2>&1 | grep "check \|VIOLATION" | grep -v KNOWN

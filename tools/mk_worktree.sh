#!/bin/sh
# mk_worktree.sh <dir>: a scratch git worktree of /repo at HEAD, with the (git-ignored) generated
# build-system files copied in so that `make -j8 && make check` works in it.
set -e
d="$1"
git -C /repo worktree add -q "$d" HEAD
rsync -a --exclude='.git' --exclude='*.o' --exclude='*.lo' --exclude='*.la' --exclude='.libs' --exclude='*.log' --exclude='*.trs' --ignore-existing /repo/ "$d"/

#!/usr/bin/env python3
"""mk_mut_prompt4.py <prefix> <id>...: (later rounds; also lists the places earlier seeded changes touched)
mk_mut_prompt.py <id>...: prepare a scratch worktree /tmp/mut_<id> and the brief /tmp/mut_<id>_out/PROMPT.txt for a
fresh sub-agent that is to author a property-breaking change (it sees the property text and its worktree, nothing of /verif)."""
import json, os, subprocess, sys, glob, re
props = {json.loads(l)['id']: json.loads(l) for l in open('/verif/properties.jsonl')}
tmpl = '''You are a software engineer asked to act as an adversarial tester ("mutation author") for the C project fragglet/lhasa (an LHA/LZH archive library + command-line tool). You have your own scratch git worktree of the repository at {wt} (already prepared so that `make -j8` and `make -j8 check` work inside it; the test suite takes about 6 minutes). Work ONLY inside {wt} and write your results to {out}. Do not read or use anything under /verif or /repo, and do not look at other /tmp/mut* directories.

The project is supposed to satisfy this property:

  {pid} — {title}
  {statement}
  Quantifier: {qtext}

Your job: produce ONE small change to the source code (lib/ or src/) that BREAKS this property, while (a) the project still compiles without new warnings being fatal, and (b) the existing test suite still passes (`make -j8 check` in the worktree: all 10 tests PASS) — i.e. the kind of realistic bug a reviewer and the test suite would miss. Prefer a change that needs something specific to manifest — an unusual input, a particular sequence of operations, a boundary value, a particular read size or stream kind, two sites that each look fine alone — rather than one that ordinary use exposes at once. It must be a genuine semantic violation of the property as stated (not merely a style change or a change of unspecified behaviour), and it should look like a plausible slip or "optimisation", not sabotage.

Deliver in {out}:
 1. `patch.diff` — `git diff` of your change (apply-able with `git apply` at the repository root).
 2. A demonstration: a small self-contained program or script `demo.sh` (plus any input files, e.g. a crafted archive written by a small Python script) that FAILS (exit status non-zero, with a message saying what went wrong) on the changed tree and PASSES (exit 0) on the unchanged tree. It may compile a small C program against the worktree's lib/ sources or run the built `src/lha` (or `src/test-lha`/`test/` binaries) — take the path of the tree to test as its first argument so it can be run against both trees. State the exact commands.
 3. `notes.md`: what the change is, why it violates the property, what exactly is needed for it to manifest, and the evidence that the test suite still passes (the PASS summary) and that the demo behaves as required on both trees (for the unchanged tree use `git stash` / `git diff > patch; git checkout .` in your worktree, run, then re-apply).

{earlier}

The demonstration script must be POSIX sh (no bashisms). Keep the change minimal (a few lines). When you are done, leave the worktree with the patch applied and reply with a short summary: the files in {out}, the one-paragraph description of the change, what it needs to manifest, and the test-suite result.'''
def earlier(p):
    seen = []
    for f in sorted(glob.glob('/verif/seeded/%s*/patch.diff' % p)):
        cur = None
        for l in open(f, errors='replace'):
            if l.startswith('+++ b/'):
                cur = l[6:].strip()
            m = re.match(r'@@ .* @@ (.*)', l)
            if m and cur:
                fn = re.sub(r'\(.*', '', m.group(1)).split()[-1] if m.group(1).strip() else '?'
                e = '%s (%s)' % (cur, fn.lstrip('*'))
                if e not in seen:
                    seen.append(e)
    if not seen:
        return ''
    return ('Earlier attempts at this property already changed these places: ' + '; '.join(seen) +
            '. Choose a DIFFERENT mechanism (preferably a different function or file, and a different clause of the property).')
prefix = sys.argv[1]
for p in sys.argv[2:]:
    d = props[p]
    wt, out = '/tmp/%s_%s' % (prefix, p), '/tmp/%s_%s_out' % (prefix, p)
    if not os.path.isdir(wt):
        subprocess.check_call(['/verif/tools/mk_worktree.sh', wt])
    os.makedirs(out, exist_ok=True)
    open(out + '/PROMPT.txt', 'w').write(tmpl.format(wt=wt, out=out, pid=p, title=d['title'], statement=d['statement'], earlier=earlier(p),
                                                    qtext=d['quantifier']['text']))
    print(p, wt, out)

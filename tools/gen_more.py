"""Further probes for the translator (header parser, input stream, readers, CLI)."""
PROBES = []


def probe(cfile, items, pre=""):
    PROBES.append((cfile, items, pre))


OS_TYPES = ["UNKNOWN", "MSDOS", "WIN95", "WINNT", "UNIX", "OS2", "MACOS", "AMIGA", "ATARI", "JAVA", "CPM", "FLEX",
            "RUNSER", "TOWNSOS", "OS9", "OS9_68K", "OS386", "HUMAN68K", "LHARK"]
FLAGS = ["UNIX_PERMS", "UNIX_UID_GID", "COMMON_CRC", "WINDOWS_TIMESTAMPS", "OS9_PERMS"]

probe("lib/lha_file_header.c",
      [("macro", m, "hdr_" + m) for m in
       ["COMMON_HEADER_LEN", "LEVEL_0_MIN_HEADER_LEN", "LEVEL_1_MIN_HEADER_LEN", "LEVEL_2_HEADER_LEN",
        "LEVEL_3_HEADER_LEN", "LEVEL_3_MAX_HEADER_LEN", "LEVEL_0_UNIX_EXTENDED_LEN", "LEVEL_0_OS9_EXTENDED_LEN"]]
      + [("macro", "LHA_OS_TYPE_" + t, "OS_TYPE_" + t) for t in OS_TYPES]
      + [("macro", "LHA_FILE_" + f, "FILE_" + f) for f in FLAGS]
      + [("str", "LHA_COMPRESS_TYPE_DIR", "COMPRESS_TYPE_DIR"),
         ("macro", "sizeof(((LHAFileHeader*)0)->compress_method)", "hdr_compress_method_extent"),
         ("macro", "sizeof(LHAFileHeader)", "sizeof_LHAFileHeader")])

_DECODERS = ["ext_header_common_decoder", "ext_header_filename_decoder", "ext_header_path_decoder",
             "ext_header_unix_perms_decoder", "ext_header_unix_uid_gid_decoder", "ext_header_unix_username_decoder",
             "ext_header_unix_group_decoder", "ext_header_unix_timestamp_decoder", "ext_header_windows_timestamps",
             "ext_header_os9_decoder"]
_ident = " ".join("if (ext_header_types[i]->decoder == %s) id = %d;" % (d, k) for k, d in enumerate(_DECODERS))
probe("lib/ext_header.c", [("raw", r'''
    printf("TABLE ext_header_nums"); for (i = 0; i < NUM_HEADER_TYPES; ++i) printf(" %u", (unsigned) ext_header_types[i]->num); printf("\n");
    printf("TABLE ext_header_min_lens"); for (i = 0; i < NUM_HEADER_TYPES; ++i) printf(" %u", (unsigned) ext_header_types[i]->min_len); printf("\n");
    printf("TABLE ext_header_decoder_ids"); for (i = 0; i < NUM_HEADER_TYPES; ++i) { unsigned id = 99; ''' + _ident + r''' printf(" %u", id); } printf("\n");
    ''', None)])

probe("lib/lha_input_stream.c", [
    ("macro", "MAX_SFX_HEADER_LEN", "MAX_SFX_HEADER_LEN"),
    ("macro", "LEADIN_BUFFER_LEN", "LEADIN_BUFFER_LEN"),
    ("macro", "sizeof(((LHAInputStream*)0)->leadin)", "leadin_extent"),
    ("macro", "sizeof(LHAInputStream)", "sizeof_LHAInputStream"),
    ("str", "AMIGA_LHASFX_ID", "AMIGA_LHASFX_ID"),
    ("str", "DECLHA_SFX_ID", "DECLHA_SFX_ID")])

probe("lib/lha_basic_reader.c", [("macro", "sizeof(LHABasicReader)", "sizeof_LHABasicReader")])
probe("lib/lha_reader.c", [("macro", "sizeof(LHAReader)", "sizeof_LHAReader")])
probe("lib/lha_decoder.c", [
    ("macro", "sizeof(LHADecoder)", "sizeof_LHADecoder"),
    ("raw", r'''
    printf("DEF decoders_count %u\n", (unsigned) (sizeof(decoders) / sizeof(*decoders)));
    for (i = 0; i < sizeof(decoders) / sizeof(*decoders); ++i) {
        const unsigned char *s_ = (const unsigned char *) decoders[i].name;
        printf("TABLE decoder_name_%lu", i); for (; *s_; ++s_) printf(" %u", (unsigned) *s_); printf("\n");
        printf("DEF decoder_max_read_%lu %llu\n", i, (unsigned long long) decoders[i].dtype->max_read);
        printf("DEF decoder_block_size_%lu %llu\n", i, (unsigned long long) decoders[i].dtype->block_size);
        printf("DEF decoder_extra_size_%lu %llu\n", i, (unsigned long long) decoders[i].dtype->extra_size);
    }
    printf("TABLE decoder_names_flat"); for (i = 0; i < sizeof(decoders) / sizeof(*decoders); ++i) { const unsigned char *s_ = (const unsigned char *) decoders[i].name; for (; *s_; ++s_) printf(" %u", (unsigned) *s_); } printf("\n");
    printf("TABLE decoder_name_lens"); for (i = 0; i < sizeof(decoders) / sizeof(*decoders); ++i) printf(" %u", (unsigned) strlen(decoders[i].name)); printf("\n");
    printf("TABLE decoder_type_ids"); for (i = 0; i < sizeof(decoders) / sizeof(*decoders); ++i) {
        unsigned id = 99; LHADecoderType *t = decoders[i].dtype;
        if (t == &lha_null_decoder) id = 0; if (t == &lha_lz5_decoder) id = 1; if (t == &lha_lzs_decoder) id = 2;
        if (t == &lha_lh1_decoder) id = 3; if (t == &lha_lh4_decoder) id = 4; if (t == &lha_lh5_decoder) id = 5;
        if (t == &lha_lh6_decoder) id = 6; if (t == &lha_lh7_decoder) id = 7; if (t == &lha_lhx_decoder) id = 8;
        if (t == &lha_lk7_decoder) id = 9; if (t == &lha_pm1_decoder) id = 10; if (t == &lha_pm2_decoder) id = 11;
        printf(" %u", id); } printf("\n");
    ''', None)])

probe("lib/macbinary.c", [("macro", m, "mb_" + m) for m in
      ["OUTPUT_BUFFER_SIZE", "MAC_TIME_OFFSET", "MBHDR_SIZE", "MBHDR_OFF_VERSION", "MBHDR_OFF_FILENAME_LEN",
       "MBHDR_OFF_FILENAME", "MBHDR_LEN_FILENAME", "MBHDR_OFF_ZERO_COMPAT1", "MBHDR_OFF_ZERO_COMPAT2",
       "MBHDR_OFF_DATA_FORK_LEN", "MBHDR_OFF_RES_FORK_LEN", "MBHDR_OFF_FILE_MOD_DATE", "MBHDR_OFF_COMMENT_LEN",
       "MBHDR_OFF_MACBINARY2_DATA", "MBHDR_LEN_MACBINARY2_DATA"]]
      + [("macro", "sizeof(((MacBinaryDecoder*)0)->mb_header)", "mb_header_extent"),
         ("macro", "sizeof(MacBinaryDecoder)", "sizeof_MacBinaryDecoder"),
         ("dtype", "macbinary_decoder_type", "macbinary")])

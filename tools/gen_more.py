"""Further probes for the translator (header parser, input stream, readers, CLI)."""
PROBES = []


def probe(cfile, items, pre=""):
    PROBES.append((cfile, items, pre))


OS_TYPES = ["UNKNOWN", "MSDOS", "WIN95", "WINNT", "UNIX", "OS2", "MACOS", "AMIGA", "ATARI", "JAVA", "CPM", "FLEX",
            "RUNSER", "TOWNSOS", "OS9", "OS9_68K", "OS386", "HUMAN68K", "LHARK"]
FLAGS = ["UNIX_PERMS", "UNIX_UID_GID", "COMMON_CRC", "WINDOWS_TIMESTAMPS", "OS9_PERMS"]

probe("lib/lha_file_header.c",
      [("macro", m, "hdr_" + m) for m in
       ["COMMON_HEADER_LEN", "LEVEL_0_MIN_HEADER_LEN", "LEVEL_1_MIN_HEADER_LEN", "LEVEL_2_HEADER_LEN",
        "LEVEL_3_HEADER_LEN", "LEVEL_3_MAX_HEADER_LEN", "LEVEL_0_UNIX_EXTENDED_LEN", "LEVEL_0_OS9_EXTENDED_LEN"]]
      + [("macro", "LHA_OS_TYPE_" + t, "OS_TYPE_" + t) for t in OS_TYPES]
      + [("macro", "LHA_FILE_" + f, "FILE_" + f) for f in FLAGS]
      + [("str", "LHA_COMPRESS_TYPE_DIR", "COMPRESS_TYPE_DIR"),
         ("macro", "sizeof(((LHAFileHeader*)0)->compress_method)", "hdr_compress_method_extent"),
         ("macro", "sizeof(LHAFileHeader)", "sizeof_LHAFileHeader")])

_DECODERS = ["ext_header_common_decoder", "ext_header_filename_decoder", "ext_header_path_decoder",
             "ext_header_unix_perms_decoder", "ext_header_unix_uid_gid_decoder", "ext_header_unix_username_decoder",
             "ext_header_unix_group_decoder", "ext_header_unix_timestamp_decoder", "ext_header_windows_timestamps",
             "ext_header_os9_decoder"]
_ident = " ".join("if (ext_header_types[i]->decoder == %s) id = %d;" % (d, k) for k, d in enumerate(_DECODERS))
probe("lib/ext_header.c", [("raw", r'''
    printf("TABLE ext_header_nums"); for (i = 0; i < NUM_HEADER_TYPES; ++i) printf(" %u", (unsigned) ext_header_types[i]->num); printf("\n");
    printf("TABLE ext_header_min_lens"); for (i = 0; i < NUM_HEADER_TYPES; ++i) printf(" %u", (unsigned) ext_header_types[i]->min_len); printf("\n");
    printf("TABLE ext_header_decoder_ids"); for (i = 0; i < NUM_HEADER_TYPES; ++i) { unsigned id = 99; ''' + _ident + r''' printf(" %u", id); } printf("\n");
    ''', None)])

probe("lib/lha_input_stream.c", [
    ("macro", "MAX_SFX_HEADER_LEN", "MAX_SFX_HEADER_LEN"),
    ("macro", "LEADIN_BUFFER_LEN", "LEADIN_BUFFER_LEN"),
    ("macro", "sizeof(((LHAInputStream*)0)->leadin)", "leadin_extent"),
    ("macro", "sizeof(LHAInputStream)", "sizeof_LHAInputStream"),
    ("str", "AMIGA_LHASFX_ID", "AMIGA_LHASFX_ID"),
    ("str", "DECLHA_SFX_ID", "DECLHA_SFX_ID")])

probe("lib/lha_basic_reader.c", [("macro", "sizeof(LHABasicReader)", "sizeof_LHABasicReader")])
probe("lib/lha_reader.c", [("macro", "sizeof(LHAReader)", "sizeof_LHAReader")])
probe("lib/lha_decoder.c", [
    ("macro", "sizeof(LHADecoder)", "sizeof_LHADecoder"),
    ("raw", r'''
    printf("DEF decoders_count %u\n", (unsigned) (sizeof(decoders) / sizeof(*decoders)));
    for (i = 0; i < sizeof(decoders) / sizeof(*decoders); ++i) {
        const unsigned char *s_ = (const unsigned char *) decoders[i].name;
        printf("TABLE decoder_name_%lu", i); for (; *s_; ++s_) printf(" %u", (unsigned) *s_); printf("\n");
        printf("DEF decoder_max_read_%lu %llu\n", i, (unsigned long long) decoders[i].dtype->max_read);
        printf("DEF decoder_block_size_%lu %llu\n", i, (unsigned long long) decoders[i].dtype->block_size);
        printf("DEF decoder_extra_size_%lu %llu\n", i, (unsigned long long) decoders[i].dtype->extra_size);
    }
    printf("TABLE decoder_names_flat"); for (i = 0; i < sizeof(decoders) / sizeof(*decoders); ++i) { const unsigned char *s_ = (const unsigned char *) decoders[i].name; for (; *s_; ++s_) printf(" %u", (unsigned) *s_); } printf("\n");
    printf("TABLE decoder_name_lens"); for (i = 0; i < sizeof(decoders) / sizeof(*decoders); ++i) printf(" %u", (unsigned) strlen(decoders[i].name)); printf("\n");
    printf("TABLE decoder_type_ids"); for (i = 0; i < sizeof(decoders) / sizeof(*decoders); ++i) {
        unsigned id = 99; LHADecoderType *t = decoders[i].dtype;
        if (t == &lha_null_decoder) id = 0; if (t == &lha_lz5_decoder) id = 1; if (t == &lha_lzs_decoder) id = 2;
        if (t == &lha_lh1_decoder) id = 3; if (t == &lha_lh4_decoder) id = 4; if (t == &lha_lh5_decoder) id = 5;
        if (t == &lha_lh6_decoder) id = 6; if (t == &lha_lh7_decoder) id = 7; if (t == &lha_lhx_decoder) id = 8;
        if (t == &lha_lk7_decoder) id = 9; if (t == &lha_pm1_decoder) id = 10; if (t == &lha_pm2_decoder) id = 11;
        printf(" %u", id); } printf("\n");
    ''', None)])

probe("lib/macbinary.c", [("macro", m, "mb_" + m) for m in
      ["OUTPUT_BUFFER_SIZE", "MAC_TIME_OFFSET", "MBHDR_SIZE", "MBHDR_OFF_VERSION", "MBHDR_OFF_FILENAME_LEN",
       "MBHDR_OFF_FILENAME", "MBHDR_LEN_FILENAME", "MBHDR_OFF_ZERO_COMPAT1", "MBHDR_OFF_ZERO_COMPAT2",
       "MBHDR_OFF_DATA_FORK_LEN", "MBHDR_OFF_RES_FORK_LEN", "MBHDR_OFF_FILE_MOD_DATE", "MBHDR_OFF_COMMENT_LEN",
       "MBHDR_OFF_MACBINARY2_DATA", "MBHDR_LEN_MACBINARY2_DATA"]]
      + [("macro", "sizeof(((MacBinaryDecoder*)0)->mb_header)", "mb_header_extent"),
         ("macro", "sizeof(MacBinaryDecoder)", "sizeof_MacBinaryDecoder"),
         ("dtype", "macbinary_decoder_type", "macbinary")])

# ---- src/list.c: the four column lists of the list commands (names, widths, which handler / footer
# function each column uses, identity of the column object), the OS-name strings of
# os_type_to_string (evaluated for every uint8_t value: the default string, the values that get
# another one, and those strings) and the month names
# (a function-local array of output_timestamp: obtained by running output_timestamp itself on
# the 15th of every month of 1971, TZ=UTC, with stdout redirected to a memory stream).
_LIST_HANDLERS = ["permission_column_print", "unix_uid_gid_column_print", "packed_column_print", "size_column_print",
                  "ratio_column_print", "method_crc_column_print", "timestamp_column_print",
                  "full_timestamp_column_print", "name_column_print", "whole_line_name_column_print",
                  "header_level_column_print"]
_LIST_FOOTERS = ["permission_column_footer", "unix_uid_gid_column_footer", "packed_column_footer",
                 "size_column_footer", "ratio_column_footer", None, "timestamp_column_footer",
                 "full_timestamp_column_footer"]
_LIST_COLUMNS = ["permission_column", "unix_uid_gid_column", "packed_column", "size_column", "ratio_column",
                 "method_crc_column", "timestamp_column", "full_timestamp_column", "name_column",
                 "short_name_column", "whole_line_name_column", "header_level_column"]
_LIST_ARRAYS = [("l", "normal_column_headers"), ("lv", "normal_column_headers_verbose"),
                ("v", "verbose_column_headers"), ("vv", "verbose_column_headers_verbose")]
_hid = " ".join("if (c_->handler == %s) id_ = %d;" % (h, k) for k, h in enumerate(_LIST_HANDLERS))
_fid = " ".join("if (c_->footer == %s) id_ = %d;" % (h, k) for k, h in enumerate(_LIST_FOOTERS) if h)
_cid = " ".join("if (c_ == &%s) id_ = %d;" % (h, k) for k, h in enumerate(_LIST_COLUMNS))
_list_raw = r'''
    { ListColumn **arrs_[] = { %s }; const char *tags_[] = { %s }; unsigned a_, n_, k_;
      for (a_ = 0; a_ < %d; ++a_) {
        ListColumn **cols_ = arrs_[a_]; ListColumn *c_; unsigned id_;
        for (n_ = 0; cols_[n_] != NULL; ++n_);
        printf("DEF list_cols_%%s_count %%u\n", tags_[a_], n_);
        printf("TABLE list_cols_%%s_widths", tags_[a_]); for (k_ = 0; k_ < n_; ++k_) printf(" %%u", cols_[k_]->width); printf("\n");
        printf("TABLE list_cols_%%s_handlers", tags_[a_]); for (k_ = 0; k_ < n_; ++k_) { c_ = cols_[k_]; id_ = 99; %s printf(" %%u", id_); } printf("\n");
        printf("TABLE list_cols_%%s_footers", tags_[a_]); for (k_ = 0; k_ < n_; ++k_) { c_ = cols_[k_]; id_ = 99; if (c_->footer == NULL) id_ = 98; %s printf(" %%u", id_); } printf("\n");
        printf("TABLE list_cols_%%s_ids", tags_[a_]); for (k_ = 0; k_ < n_; ++k_) { c_ = cols_[k_]; id_ = 99; %s printf(" %%u", id_); } printf("\n");
        for (k_ = 0; k_ < n_; ++k_) { const unsigned char *s_ = (const unsigned char *) cols_[k_]->name;
          printf("TABLE list_cols_%%s_name_%%u", tags_[a_], k_); for (; *s_; ++s_) printf(" %%u", (unsigned) *s_); printf("\n"); }
      }
    }
    { unsigned o_, p_, best_ = 0, bestn_ = 0;   /* the string returned for most values is the default */
      for (o_ = 0; o_ < 256; ++o_) { unsigned n_ = 0;
        for (p_ = 0; p_ < 256; ++p_) if (!strcmp(os_type_to_string((uint8_t) o_), os_type_to_string((uint8_t) p_))) ++n_;
        if (n_ > bestn_) { bestn_ = n_; best_ = o_; } }
      { const unsigned char *s_ = (const unsigned char *) os_type_to_string((uint8_t) best_);
        printf("TABLE list_os_name_default"); for (; *s_; ++s_) printf(" %%u", (unsigned) *s_); printf("\n"); }
      printf("TABLE list_os_known");
      for (o_ = 0; o_ < 256; ++o_) if (strcmp(os_type_to_string((uint8_t) o_), os_type_to_string((uint8_t) best_))) printf(" %%u", o_);
      printf("\n");
      for (o_ = 0; o_ < 256; ++o_) if (strcmp(os_type_to_string((uint8_t) o_), os_type_to_string((uint8_t) best_))) {
        const unsigned char *s_ = (const unsigned char *) os_type_to_string((uint8_t) o_);
        printf("TABLE list_os_name_%%u", o_); for (; *s_; ++s_) printf(" %%u", (unsigned) *s_); printf("\n"); } }
    { unsigned m_; setenv("TZ", "UTC", 1); tzset(); unsetenv("TEST_NOW_TIME");
      for (m_ = 0; m_ < 12; ++m_) {
        /* day 365 + cum_[m_] + 14 of the epoch = the 15th of month m_ of 1971 (not a leap year), 00:00:00 UTC */
        static const unsigned cum_[12] = { 0, 31, 59, 90, 120, 151, 181, 212, 243, 273, 304, 334 };
        unsigned ts_ = (365 + cum_[m_] + 14) * 86400u; char *buf_ = NULL; size_t len_ = 0; size_t q_;
        FILE *save_ = stdout; FILE *ms_ = open_memstream(&buf_, &len_);
        if (ms_ == NULL) return 1;
        fflush(stdout); stdout = ms_; output_timestamp(ts_); fflush(ms_); stdout = save_; fclose(ms_);
        printf("TABLE list_month_%%u", m_);
        for (q_ = 0; q_ < len_ && buf_[q_] != ' '; ++q_) printf(" %%u", (unsigned) (unsigned char) buf_[q_]);
        printf("\n"); free(buf_);
      }
    }
''' % (", ".join(n for _, n in _LIST_ARRAYS), ", ".join('"%s"' % t for t, _ in _LIST_ARRAYS), len(_LIST_ARRAYS),
       _hid, _fid, _cid)
probe("src/list.c", [("raw", _list_raw, None)],
      pre='#define _GNU_SOURCE\n#include <stdio.h>\n#include <stdlib.h>\n#include <time.h>\n#include "safe.c"\n#include "filter.c"\n')

# ---- src/extract.c, src/main.c: the length of the progress bar and the name / version in the usage text
probe("src/extract.c", [("macro", "MAX_PROGRESS_LEN", "MAX_PROGRESS_LEN"),
                        ("str", "PACKAGE_NAME", "PACKAGE_NAME"),
                        ("str", "PACKAGE_VERSION", "PACKAGE_VERSION")],
      pre='#include "config.h"\n#include "safe.c"\n#include "filter.c"\n')
